"""C05 - pedigree phasing is Mendelian-consistent and ordered paternal|maternal."""
from .. import phaseprops as PP
from .. import phaseworld as PW

PROP = "C05"
TRACE_MODULE = PP.TRACE_MODULE
TASK_TIMEOUT = PP.TASK_TIMEOUT
drive = PP.drive
own_clause = PP.own_clause_for(PROP)
signature = PP.signature
EXHAUSTIVE = True
RULE = ("trios and two-child quartets: (a) exhaustive - every genotype triple from {0/0,0/1,1/1,./.}^3 at one site next to a "
        "consistent heterozygous site, read support in {none, child only, all}; (b) seeded random pedigree worlds with 2-8 sites, "
        "Mendelian-consistent truth with recombination, conflicts and missing genotypes injected into the VCF, any read support; "
        "non-trivial = some child call is phased")
ASSUMPTIONS = [
    "only trusted-genotype runs are judged; transmission bits are read from the H1 hook record (the code's own labelling, pinned in PedMEC.tla)",
]


def design_mc(ctx):
    import os
    from .. import tlc
    out = PP.design_mc_pipeline(ctx)
    for withreads in (["FALSE"] if ctx.quick else ["FALSE", "TRUE"]):
        cfg = tlc.write_cfg(os.path.join(ctx.workdir, f"ped{withreads}.cfg"), spec="Spec", consts={"NSites": 2, "WithReads": withreads},
                            invariants=["PaternalMaternal", "TransmissionConsistent", "ConflictOrMissingUnphased", "GeneticHaplotyping",
                                        "GenotypeKept"])
        r = tlc.model_check("PedPipeline", cfg=cfg, timeout=3000)
        r["what"] = f"PedPipeline (trio, all genotype combinations over 2 sites, reads={withreads}): the C05 sentences follow from the PedMEC solver contract and the IBD labelling"
        out.append(r)
    return out


GTS = ["0/0", "0/1", "1/1", "./."]


def _gt_of(pair):
    a, b = sorted(pair)
    return f"{a}/{b}"


def scenarios(ctx):
    rng = ctx.rng
    scs = []
    # (a) exhaustive genotype triples at site 2 of a 3-site trio world
    for gf in GTS:
        for gm in GTS:
            for gc in GTS:
                for support in ("none", "child", "all"):
                    for quartet in (False, True):
                        if quartet and ctx.quick and rng.random() < 0.6:
                            continue
                        ped = [["s1", "s2", "s3"]] + ([["s1", "s2", "s4"]] if quartet else [])
                        w = PW.rand_world(rng, nsamples=4 if quartet else 3, nchroms=1, ped=ped, max_sites=3, het_prob=0.7,
                                          depth=(1, 2), kinds=("snv",))
                        n = len(w["chroms"][0]["sites"])
                        site = rng.randrange(n)
                        vg = {s: [[_gt_of(w["truth"][s][0][i]) for i in range(n)]] for s in w["samples"]}
                        vg["s1"][0][site], vg["s2"][0][site], vg["s3"][0][site] = gf, gm, gc
                        w["vcf_gt"] = vg
                        w["errfree"] = False
                        if support == "none":
                            w["reads"] = []
                        elif support == "child":
                            w["reads"] = [r for r in w["reads"] if r["sample"] in ("s3", "s4")]
                        w["opts"] = {"ped": True, "tag": rng.choice(["PS", "HP"]), "genetic_haplotyping": rng.random() < 0.8}
                        scs.append({"world": w})
    # (b) random
    for i in range(1200 if ctx.quick else 15000):
        quartet = rng.random() < 0.4
        ped = [["s1", "s2", "s3"]] + ([["s1", "s2", "s4"]] if quartet else [])
        bystander = (not quartet) and rng.random() < 0.35      # a fourth VCF column that belongs to no family
        if bystander:
            quartet = True                                       # four samples, one trio
            if rng.random() < 0.5:
                nm = rng.sample(["s1", "s2", "s3", "s4"], 4)
                ped = [[nm[0], nm[1], nm[2]]]
        elif rng.random() < 0.5:
            # roles independent of names and of the VCF column order (children may sort before their parents), PED lines in any order
            nm = rng.sample(["s1", "s2", "s3", "s4"][:4 if quartet else 3], 4 if quartet else 3)
            ped = [[nm[0], nm[1], nm[2]]] + ([[nm[0], nm[1], nm[3]]] if quartet else [])
            rng.shuffle(ped)
        w = PW.rand_world(rng, nsamples=4 if quartet else 3, nchroms=rng.choice([1, 1, 2]), ped=ped, max_sites=rng.choice([4, 8]),
                          het_prob=rng.choice([0.4, 0.7, 0.9]), depth=(1, 3), read_none_prob=rng.choice([0, 0.3, 1.0]))
        vg = {s: [[_gt_of(w["truth"][s][ci][i]) for i in range(len(ch["sites"]))] for ci, ch in enumerate(w["chroms"])]
              for s in w["samples"]}
        for s in w["samples"]:
            for ci, ch in enumerate(w["chroms"]):
                for i in range(len(ch["sites"])):
                    if rng.random() < 0.12:
                        vg[s][ci][i] = rng.choice(GTS)
                    if bystander and s not in ped[0] and rng.random() < 0.4:
                        vg[s][ci][i] = "./."          # missing calls of a sample OUTSIDE the family concern nobody in it
        w["vcf_gt"] = vg
        w["errfree"] = False
        w["opts"] = {"ped": True, "tag": rng.choice(["PS", "HP"]), "genetic_haplotyping": rng.random() < 0.8,
                     "only_snvs": rng.random() < 0.15, "lists": {"recomb": rng.random() < 0.6}}
        if rng.random() < 0.25:
            w["opts"]["use_ped_samples"] = True      # --use-ped-samples: exactly the individuals of complete PED relationships
        if rng.random() < 0.25:
            PW.add_decoys(rng, w)
        if rng.random() < 0.3:
            w["stale_phase"] = rng.choice(["PS", "HP"])    # the input VCF already carries unrelated phase statements
        if rng.random() < 0.3:
            w["gt_desc"] = True                            # unphased heterozygous genotypes written 1/0
        if rng.random() < 0.15:
            w["first_at_zero"] = True                      # the first site on the first base of its contig
        if rng.random() < 0.2:
            w["multi_before"] = [[ci_, si_] for ci_, ch_ in enumerate(w["chroms"]) for si_ in range(len(ch_["sites"])) if rng.random() < 0.4]
        scs.append({"world": w})
    # nested phase sets with a forced recombination (quartets): reported transmission vs. phased calls
    from .c20 import nested_world
    for i in range(40 if ctx.quick else 1000):
        scs.append({"world": nested_world(rng)})
    return scs


def nontrivial(sc, events):
    e = events[0]
    if e.get("ev") != "PhaseRun" or not e["ped"]:
        return False
    kids = {t[2] for t in e["ped"]}
    return any(x["ph"] for si, s in enumerate(e["out"], start=1) if si in kids for c in s for x in c)


def selftest_corrupt(events):
    for e in events:
        if e.get("ev") == "PhaseRun" and e["ped"]:
            kid = e["ped"][0][2]
            for c in e["out"][kid - 1]:
                for x in c:
                    if x["ph"] and x["a"] != x["b"]:
                        x["a"], x["b"] = x["b"], x["a"]
                        return events
    return events


MANIFEST = {
    "text": "PhaseRun.tla states the four sentences as relations over the input genotypes, the H1 transmission vector and the written "
            "calls (PaternalMaternal, TransmissionConsistent, ConflictOrMissingUnphased, GeneticHaplotyping); PedMEC.tla pins the "
            "bit -> haplotype convention and TLC model-checks the solver design against it. Real `whatshap phase --ped` runs on every "
            "genotype triple over {0/0,0/1,1/1,./.} x read support x trio/quartet and on seeded random pedigree worlds (conflicts, "
            "missing genotypes, recombination, --no-genetic-haplotyping, --only-snvs) are judged by TLC.",
    "note": "trusted: TLC, PhaseRun.tla, H1 hook, materialiser; trusted-genotype runs only",
    "technique": "TLA+ relations evaluated by TLC on recorded pedigree runs (trace validation), exhaustive genotype-triple enumeration",
}
