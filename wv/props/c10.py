"""C10 - haplotag conserves every alignment and tags it with the best-agreeing haplotype."""
import json
import os
import random
import shutil
import tempfile

from .. import tlc

PROP = "C10"
TRACE_MODULE = "C10_Trace"
EXHAUSTIVE = True
NPROC = 8
SHARDS = 8
TASK_TIMEOUT = 300
RULE = ("a scenario is one abstract input (phased multi-sample VCF over 1-2 chromosomes, BAM with name groups of every "
        "alignment kind, options) run through the real run_haplotag, usually twice (second run: the two haplotypes of one "
        "phase set exchanged in the VCF). 'gen' scenarios bundle TLC-enumerated call patterns x name-group shapes "
        "(Gen_C10: every pattern over 3 sites/2 sets for ploidy 2, 2 sites for ploidy 3, every single/pair shape with "
        "every observed allele vector); 'rand' scenarios are seeded larger worlds (indels, read groups, BX clouds, "
        "--regions, stale tags, ploidy 2-4); 'bxmol' scenarios put one barcode on several molecules of a chromosome with a small "
        "--linked-read-distance-cutoff (140/240 bp): reads of a molecule start within half the cutoff (joint decision), molecules "
        "farther apart than the cutoff (separate decisions), different haplotypes / phase sets, varying evidence; 'hazard' scenarios are five small input classes inside the statement that "
        "exposed defects of the code as of round 1 (mates on opposite strands: repaired by a5fcdae; alignment overlapping two "
        "regions; stale tags on an unplaced unmapped read; barcode cloud touching two phase sets with equal scores; one barcode "
        "in two samples). Decoration 'aux' (60 % of the non-hazard scenarios): every alignment additionally carries 0 to 30 "
        "auxiliary fields of every BAM value type (A, H, Z incl. one-character and numeric-looking strings, integers of every "
        "storage width c/C/s/S/i/I, f, B arrays of every element type) in front of, between and behind the serial/BX/stale "
        "HP,PS,PC tags; input and output are projected to the ordered typed field list (SAM text of each field + "
        "get_tags(with_value_type=True)) and clause OtherTags demands equality. Option variants the output must not depend on: "
        "--output-threads 1/2 (alternating between the two runs of a scenario), --skip-missing-contigs. "
        "A scenario is non-trivial if the run succeeded and its output has "
        "a tagged alignment and an untagged alignment whose read observed a phased heterozygous variant (a tie)")
ASSUMPTIONS = [
    "the alleles a read shows are those the harness built into it (error-free copy of an allele vector, SNVs and unshiftable "
    "indels >= 50 bp apart, reads covering each touched variant with >= 12 bp on both sides); they are never read back from whatshap",
    "allele quality of an observation: with --reference 30; without reference the base quality of the SNV base (1-bp deletion, "
    "REF allele: of the retained base; other indel alleles 30) - whatshap's detection conventions, part of C06 not C10",
    "'its read' = all alignments of one name and sample (with linked reads: one barcode) that pass whatshap's fixed read filter "
    "(mapped, not secondary/supplementary, MAPQ >= 20, duplicates included); each site is observed by at most one of them",
    "read names are unique across samples, barcodes are unique per read group, a name has at most two primary lines",
    "barcode clouds are well separated (clause Premise): alignments of one barcode start within half the cutoff or farther apart "
    "than the cutoff; for chains of reads each within the cutoff of the next only, the command's grouping depends on the visiting "
    "order, the statement does not fix it and such inputs are not generated",
    "--regions are disjoint and ascending within a chromosome (borders aligned with read starts/ends, adjacent or with gaps, reads "
    "spanning two regions); chromosomes may be requested in another order than in the BAM: the statement then does not fix the "
    "output order and only 'every fetched alignment exactly once' is judged; PC is exempt from Conservation, its value is not judged",
    "OtherTags compares the auxiliary fields at the level of SAM: tag, type A/i/f/Z/H/B+element type, value, order; the storage "
    "width of a scalar integer (c/C/s/S/i/I, which SAM text does not show) is not part of an alignment's identity; HP/PS/PC are "
    "left out of the list, so where the three tags sit among the others is not judged",
    "--skip-missing-contigs is only varied on worlds in which every contig with alignments is declared in the VCF (the option "
    "then has nothing to skip); what it does to reads on undeclared contigs is outside this check",
    "TLC evaluates the definitions of Haplotag.tla correctly; pysam/htslib parse the BAM files",
]

SPACING = 50
FIRST = 120
LEFT_ZONE = (8, 92)
STRETCH = 104000
PALETTE = [10, 20, 30, 40]


# ----------------------------------------------------------------------------------------------
# design-level model checking
INVS = ["InvConservation", "InvTagShape", "InvDecision", "InvUntaggedWhen", "InvIneligible", "InvTaggedWhen",
        "InvSymmetry", "AccIsScore", "SeenIsTouched", "TieUntagged", "DecisionSymmetric"]


def design_mc(ctx):
    if ctx.quick:
        cfgs = [("A", dict(NAln=2, NSites=2, Quals="{1, 2}", Kinds='{"prim"}', FixFirstSite="TRUE", TagSuppOpts="{FALSE}")),
                ("B", dict(NAln=2, NSites=2, Quals="{1}", Kinds='{"prim", "sup", "low"}', FixFirstSite="TRUE",
                           TagSuppOpts="{TRUE, FALSE}"))]
    else:
        cfgs = [("A", dict(NAln=2, NSites=2, Quals="{1, 2}", Kinds='{"prim", "sup", "low"}', FixFirstSite="TRUE",
                           TagSuppOpts="{TRUE, FALSE}")),
                ("B", dict(NAln=2, NSites=2, Quals="{1}", Kinds='{"prim", "dup", "sup", "sec", "low", "unm"}',
                           FixFirstSite="FALSE", TagSuppOpts="{TRUE, FALSE}")),
                ("C", dict(NAln=3, NSites=1, Quals="{1, 2}", Kinds='{"prim", "sup"}', FixFirstSite="FALSE",
                           TagSuppOpts="{TRUE, FALSE}"))]
    out = []
    for tag, consts in cfgs:
        cfg = tlc.write_cfg(os.path.join(ctx.workdir, f"MC_Haplotag_{tag}.cfg"), spec="Spec", consts=consts, invariants=INVS)
        r = tlc.model_check("MC_Haplotag", cfg=cfg, workers=NPROC, timeout=3000)
        r["what"] = (f"MC_Haplotag[{tag}] two-pass design (scan in any order, decide, emit) x exchanged-haplotype run, "
                     f"all worlds {consts['NAln']} alignments x {consts['NSites']} sites, qualities {consts['Quals']}, "
                     f"kinds {consts['Kinds']}: property clauses + Symmetry + tie => untagged")
        out.append(r)
    return out


# ----------------------------------------------------------------------------------------------
# scenarios
def _gen(ctx, tag, K, P, MaxSets):
    cfg = os.path.join(ctx.workdir, f"Gen_C10_{tag}.cfg")
    with open(cfg, "w") as fh:
        fh.write(f"CONSTANTS\n  K = {K}\n  P = {P}\n  MaxSets = {MaxSets}\n")
    gen = os.path.join(ctx.workdir, f"gen_{tag}.ndjson")
    rc, out, _ = tlc._java(["-config", cfg, "-workers", "1", "-metadir", tlc._metadir(), "-noGenerateSpecTE", "Gen_C10.tla"],
                           env_extra={"OUT_FILE": gen}, timeout=1200, serial=True)
    if rc != 0:
        raise tlc.TlcError("Gen_C10 failed:\n" + out[-2000:])
    pats, groups = [], []
    with open(gen) as fh:
        for line in fh:
            if line.strip():
                o = json.loads(line)
                (pats if o["k"] == "pat" else groups).append(o["p"] if o["k"] == "pat" else o["a"])
    pats.sort(key=json.dumps)
    groups.sort(key=json.dumps)
    return pats, groups


def _rand_opts(rng, nsamples, allow_regions=True):
    o = {"tag_supp": rng.random() < 0.5, "ignore_rg": rng.random() < 0.2, "linked": False, "given": None,
         "regions": None, "list": rng.random() < 0.2}
    if allow_regions and rng.random() < 0.3:
        o["regions"] = rng.choice(["split2", "split3", "head", "tail", "whole"])
    return o


def _stale(rng, p=0.25, kind=""):
    # stale tags on an unmapped read without coordinate are the hazard class stale_unplaced, kept out of the other scenarios
    if rng.random() >= p or kind == "unm":
        return None
    return [rng.choice([1, 2, 3]), rng.choice([100, 200, 777]), rng.choice([5, 30, 55])]


def _site_kinds(rng, n, mode):
    ks = []
    for _ in range(n):
        x = rng.random()
        if x < 0.7:
            ks.append({"kind": "snv", "len": 1})
        elif x < 0.85:
            ks.append({"kind": "ins", "len": 1 if mode == "noref" else rng.randint(1, 3)})
        else:
            ks.append({"kind": "del", "len": 1 if mode == "noref" else rng.randint(1, 3)})
    return ks


def _gen_scenarios(ctx, tag, K, P, pats, groups, npats, chunk):
    rng = ctx.rng
    scs = []
    chosen = pats if npats >= len(pats) else rng.sample(pats, npats)
    for pat in chosen:
        order = list(groups)
        rng.shuffle(order)
        for c0 in range(0, len(order), chunk):
            mode = rng.choice(["ref", "noref"])
            two = rng.random() < 0.35
            samples = ["s1", "s2"] if two else ["s1"]
            rgs = [["g1", "s1"], ["g2", "s2"], ["g3", "sX"]] if two else [["g1", "s1"], ["g3", "sX"]]
            kinds = _site_kinds(rng, K, mode)
            pat2 = rng.choice(pats)
            sites = []
            for j in range(K):
                calls = [{"ps": 100 * pat[j]["ps"], "al": pat[j]["al"]}]
                if two:
                    calls.append({"ps": 100 * pat2[j]["ps"] + (7 if pat2[j]["ps"] else 0), "al": pat2[j]["al"]})
                sites.append(dict(kinds[j], calls=calls))
            opts = _rand_opts(rng, len(samples), allow_regions=rng.random() < 0.5)
            if opts["ignore_rg"]:
                opts["given"] = [rng.choice(samples)] if two else rng.choice([None, ["s1"]])
            elif two and rng.random() < 0.3:
                opts["given"] = [rng.choice(samples)]
            grs = []
            for g in order[c0:c0 + chunk]:
                x = rng.random()
                rg = 1 if x < 0.75 else rng.randint(1, len(rgs))
                alns = []
                for n, a in enumerate(g):
                    rev = rng.random() < 0.5          # mates on the same or on opposite strands
                    third = []
                    if a["c"]["lo"] <= a["c"]["hi"] and rng.random() < 0.08:
                        j = rng.randint(a["c"]["lo"], a["c"]["hi"])
                        if sites[j - 1]["kind"] == "snv":
                            third = [j]
                    alns.append({"chrom": 0, "kind": a["kind"], "lo": a["c"]["lo"], "hi": a["c"]["hi"], "al": a["c"]["al"],
                                 "third": third, "rev": rev, "stale": _stale(rng, kind=a["kind"])})
                grs.append({"rg": rg, "bx": 0, "alns": alns})
            sc = {"kind": "gen" + tag, "seed": rng.randrange(1 << 30), "ploidy": P, "mode": mode, "samples": samples, "rgs": rgs,
                  "opts": opts, "chroms": [{"sites": sites}], "groups": grs, "swap": None}
            _pick_swap(rng, sc)
            scs.append(sc)
    return scs


def _pick_swap(rng, sc):
    if sc["ploidy"] != 2:
        return
    cands = set()
    for ci, ch in enumerate(sc["chroms"]):
        for s in ch["sites"]:
            for si, c in enumerate(s["calls"]):
                if c["ps"] > 0:
                    cands.add((si + 1, ci + 1, c["ps"]))
    if cands and rng.random() < 0.9:
        sc["swap"] = list(rng.choice(sorted(cands)))


def _rand_scenario(rng, ploidy, long_reads=False):
    mode = rng.choice(["ref", "noref"])
    ns = rng.choice([1, 1, 2, 3])
    samples = [f"s{i + 1}" for i in range(ns)]
    rgs = [[f"g{i + 1}", s] for i, s in enumerate(samples)]
    if rng.random() < 0.5:
        rgs.append([f"g{len(rgs) + 1}", samples[0]])          # a second read group of the first sample
    if rng.random() < 0.5:
        rgs.append([f"g{len(rgs) + 1}", "sX"])
    nch = rng.choice([1, 2, 2])
    chroms = []
    for ci in range(nch):
        K = rng.randint(6, 10) if long_reads else (rng.randint(2, 7) if ploidy == 2 else rng.randint(2, 4))
        kinds = _site_kinds(rng, K, mode)
        sites = []
        nsets = [rng.randint(1, 3) for _ in samples]
        inter = [rng.random() < 0.3 for _ in samples]
        for j in range(K):
            calls = []
            for si in range(ns):
                x = rng.random()
                if x < 0.12:
                    calls.append({"ps": 0, "al": [0] + [1] * (ploidy - 1)})
                elif x < 0.2:
                    calls.append({"ps": 0, "al": [rng.choice([0, 1])] * ploidy})      # homozygous unphased
                else:
                    if inter[si]:
                        sid = rng.randint(1, nsets[si])
                    else:
                        sid = min(nsets[si], 1 + (j * nsets[si]) // K)
                    if rng.random() < 0.08:
                        al = [1] * ploidy
                    else:
                        while True:
                            al = [rng.choice([0, 1]) for _ in range(ploidy)]
                            if len(set(al)) > 1:
                                break
                    calls.append({"ps": 100 * sid + (si if rng.random() < 0.5 else 0), "al": al})
            sites.append(dict(kinds[j], calls=calls))
        # keep PS values of one sample distinct per set id (the +si jitter above may collide across set ids: fine, still ints)
        chroms.append({"sites": sites})
    # a chromosome without variants: alignments there pass through untagged
    if rng.random() < 0.3:
        chroms.append({"sites": []})
    opts = _rand_opts(rng, ns)
    opts["linked"] = rng.random() < 0.5
    if opts["ignore_rg"]:
        opts["given"] = [rng.choice(samples)] if ns > 1 else rng.choice([None, [samples[0]]])
    elif ns > 1 and rng.random() < 0.3:
        opts["given"] = rng.sample(samples, rng.randint(1, ns - 1))
    groups = []
    ngroups = rng.randint(15, 40)
    bx_next = 1
    cloud = None
    for gi in range(ngroups):
        rg = rng.randint(1, len(rgs))
        sm = rgs[rg - 1][1]
        sidx = samples.index(sm) if sm in samples else rng.randrange(ns)
        ci = rng.randrange(len(chroms))
        sites = chroms[ci]["sites"]
        K = len(sites)

        def cover(maxlen=6 if long_reads else 4):
            if K == 0 or rng.random() < 0.12:
                return 1, 0, [], []
            lo = rng.randint(1, K)
            hi = min(K, lo + rng.randint(0, maxlen - 1))
            h = rng.randrange(ploidy)
            al = [sites[j - 1]["calls"][sidx]["al"][h] for j in range(lo, hi + 1)]
            third = []
            x = rng.random()
            if x < 0.45:
                k = rng.randrange(len(al))
                al[k] = 1 - al[k]
            elif x < 0.55:
                j = rng.randint(lo, hi)
                if sites[j - 1]["kind"] == "snv":
                    third = [j]
            return lo, hi, al, third

        x = rng.random()
        alns = []
        if x < 0.5:
            kind = rng.choice(["prim"] * 6 + ["dup", "dup", "sec", "sup", "low", "unm", "unmp"])
            lo, hi, al, third = cover() if kind not in ("unm", "unmp") else (1, 0, [], [])
            alns.append({"chrom": ci, "kind": kind, "lo": lo, "hi": hi, "al": al, "third": third, "rev": rng.random() < 0.5,
                         "stale": _stale(rng, kind=kind)})
        else:
            lo, hi, al, third = cover(3)
            k2 = rng.choice(["prim", "prim", "prim", "sup", "sec", "low", "unmp"])
            # second line: somewhere else (possibly on the other chromosome), disjoint sites
            ci2 = ci if (k2 == "unmp" or rng.random() < 0.8) else rng.randrange(len(chroms))
            s2 = chroms[ci2]["sites"]
            lo2, hi2, al2, third2 = 1, 0, [], []
            if k2 != "unmp" and s2 and rng.random() < 0.75:
                free = [j for j in range(1, len(s2) + 1) if ci2 != ci or hi < lo or j < lo or j > hi]
                if free:
                    a = rng.choice(free)
                    b = a
                    while b + 1 in free and b + 1 - a < 2 and rng.random() < 0.5:
                        b += 1
                    h = rng.randrange(ploidy)
                    al2 = [s2[j - 1]["calls"][sidx]["al"][h] for j in range(a, b + 1)]
                    if rng.random() < 0.3:
                        k = rng.randrange(len(al2))
                        al2[k] = 1 - al2[k]
                    lo2, hi2 = a, b
            rev1 = rng.random() < 0.5
            rev2 = rng.random() < 0.5
            alns.append({"chrom": ci, "kind": "prim", "lo": lo, "hi": hi, "al": al, "third": third, "rev": rev1, "stale": _stale(rng)})
            alns.append({"chrom": ci2, "kind": k2, "lo": lo2, "hi": hi2, "al": al2, "third": third2, "rev": rev2, "stale": _stale(rng)})
        bx = 0
        if rng.random() < 0.45:
            # barcodes: clouds of 1-3 names inside one read group and chromosome
            if cloud and cloud["rg"] == rg and cloud["chrom"] == ci and all(a["chrom"] == ci for a in alns) and cloud["left"] > 0:
                bx = cloud["bx"]
                cloud["left"] -= 1
            elif all(a["chrom"] == ci for a in alns):
                bx = bx_next
                bx_next += 1
                cloud = {"rg": rg, "chrom": ci, "bx": bx, "left": rng.randint(0, 2)}
        groups.append({"rg": rg, "bx": bx, "alns": alns})
    _split_multiset_clouds(chroms, groups, ns)
    # with --ignore-read-groups some reads carry no RG tag at all
    if opts["ignore_rg"]:
        for g in groups:
            if rng.random() < 0.3 and g["bx"] == 0:
                g["rg"] = 0
    sc = {"kind": "rand", "seed": rng.randrange(1 << 30), "ploidy": ploidy, "mode": mode, "samples": samples, "rgs": rgs,
          "opts": opts, "chroms": chroms, "groups": groups, "swap": None}
    _pick_swap(rng, sc)
    return sc


def _bx_scenario(rng):
    """One barcode on several molecules of a chromosome.  With the cutoff C (140 or 240 bp) and sites every 50 bp the reads of
    one molecule start at most C/2 apart (site distance <= dclose: decided jointly), the molecules of one barcode start
    farther apart than C (site distance >= dfar: decided separately); the molecules copy different haplotypes, lie in the
    same or in different phase sets and carry varying amounts of evidence (1-3 names, 1-3 sites each, optional wrong allele)."""
    mode = rng.choice(["ref", "noref"])
    C, dclose, dfar = rng.choice([(140, 1, 4), (240, 2, 6)])
    two = rng.random() < 0.3
    samples = ["s1", "s2"] if two else ["s1"]
    rgs = [["g1", "s1"], ["g2", "s2"]] if two else [["g1", "s1"], ["g2", "s1"]]
    K = rng.randint(10, 13)
    kinds = _site_kinds(rng, K, mode)
    sites = []
    split = [rng.choice([0, rng.randint(3, K - 3)]) for _ in samples]
    for j in range(K):
        calls = []
        for si in range(len(samples)):
            if rng.random() < 0.1:
                calls.append({"ps": 0, "al": [0, 1]})
            else:
                calls.append({"ps": 100 if (split[si] == 0 or j < split[si]) else 200, "al": rng.choice([[0, 1], [1, 0]])})
        sites.append(dict(kinds[j], calls=calls))
    groups = []
    for b in range(rng.randint(6, 12)):
        rg = rng.randint(1, len(rgs))
        si = samples.index(rgs[rg - 1][1])
        nm = rng.choice([1, 2, 2, 2, 3])
        L = rng.randint(1, 2)
        h = rng.randrange(2)
        for m in range(nm):
            if L + dclose > K:
                break
            for _ in range(rng.randint(1, 3)):
                lo = rng.randint(L, min(K, L + dclose))
                hi = min(K, lo + rng.randint(0, 2))
                al = [sites[j - 1]["calls"][si]["al"][h] for j in range(lo, hi + 1)]
                if rng.random() < 0.3:
                    k = rng.randrange(len(al))
                    al[k] = 1 - al[k]
                alns = [{"chrom": 0, "kind": "prim", "lo": lo, "hi": hi, "al": al, "third": [], "rev": rng.random() < 0.5,
                         "stale": _stale(rng, 0.1)}]
                if hi == lo and lo + 1 <= min(K, L + dclose) and rng.random() < 0.3:
                    # a mate starting inside the same molecule
                    lo2 = lo + 1
                    hi2 = min(K, lo2 + rng.randint(0, 1))
                    alns.append({"chrom": 0, "kind": "prim", "lo": lo2, "hi": hi2, "al": [sites[j - 1]["calls"][si]["al"][h] for j in range(lo2, hi2 + 1)],
                                 "third": [], "rev": rng.random() < 0.5, "stale": None})
                groups.append({"rg": rg, "bx": b + 1, "alns": alns})
            L = L + dclose + dfar + rng.randint(0, 1)
            if rng.random() < 0.8:
                h = 1 - h
    for _ in range(rng.randint(2, 8)):          # reads without barcode
        lo = rng.randint(1, K)
        hi = min(K, lo + rng.randint(0, 2))
        h = rng.randrange(2)
        groups.append({"rg": 1, "bx": 0, "alns": [{"chrom": 0, "kind": rng.choice(["prim", "prim", "dup", "sup"]), "lo": lo, "hi": hi,
                                                  "al": [sites[j - 1]["calls"][0]["al"][h] for j in range(lo, hi + 1)], "third": [],
                                                  "rev": rng.random() < 0.5, "stale": _stale(rng)}]})
    rng.shuffle(groups)
    opts = {"tag_supp": rng.random() < 0.5, "ignore_rg": False, "linked": rng.random() < 0.85, "cutoff": C, "given": None,
            "regions": None, "list": False}
    sc = {"kind": "bxmol", "seed": rng.randrange(1 << 30), "ploidy": 2, "mode": mode, "samples": samples, "rgs": rgs,
          "opts": opts, "chroms": [{"sites": sites}], "groups": groups, "swap": None}
    _pick_swap(rng, sc)
    return sc


def _split_multiset_clouds(chroms, groups, ns):
    """A barcode cloud of several names that touches two phase sets with equal top scores is the hazard class bx_tie
    (the reported set then depends on object addresses); the other scenarios keep such clouds inside one phase set."""
    clouds = {}
    for g in groups:
        if g["bx"]:
            clouds.setdefault((g["rg"], g["bx"]), []).append(g)
    for gs in clouds.values():
        if len(gs) < 2:
            continue
        multi = False
        for si in range(ns):
            touched = set()
            for g in gs:
                for a in g["alns"]:
                    for j in range(a["lo"], a["hi"] + 1):
                        c = chroms[a["chrom"]]["sites"][j - 1]["calls"][si]
                        if c["ps"] > 0:
                            touched.add((a["chrom"], c["ps"]))
            multi = multi or len(touched) > 1
        if multi:
            for g in gs[1:]:
                g["bx"] = 0


def _hazard_scenarios(rng):
    """Five input classes inside the statement on which the code as of round 1 fails (see the report)."""
    out = []
    site = lambda ps, al: {"kind": "snv", "len": 1, "calls": [{"ps": ps, "al": al}]}
    base = {"ploidy": 2, "mode": "noref", "samples": ["s1"], "rgs": [["g1", "s1"]],
            "opts": {"tag_supp": False, "ignore_rg": False, "linked": False, "given": None, "regions": None, "list": False},
            "chroms": [{"sites": [site(100, [0, 1]), site(100, [0, 1]), site(100, [1, 0]), site(100, [0, 1])]}], "swap": None}
    # (1) mates on opposite strands that both observe phased variants
    for rep in range(4):
        grs = []
        for v in range(6):
            a1 = [0, 0] if v % 2 == 0 else [1, 1]
            a2 = [a1[0]] if v < 2 else [1 - a1[0]]           # second mate: site 3 has al (1,0): allele 0 = haplotype 2
            grs.append({"rg": 1, "bx": 0, "alns": [
                {"chrom": 0, "kind": "prim", "lo": 1, "hi": 2, "al": a1, "third": [], "rev": False, "stale": None},
                {"chrom": 0, "kind": "prim", "lo": 3, "hi": 3, "al": a2, "third": [], "rev": True, "stale": None}]})
        out.append(dict(base, kind="hazard:fr_pair", seed=rng.randrange(1 << 30), groups=grs))
    # (2) an alignment overlapping two disjoint regions
    for rep in range(2):
        grs = [{"rg": 1, "bx": 0, "alns": [{"chrom": 0, "kind": "prim", "lo": 1, "hi": 3, "al": [0, 0, 1], "third": [], "rev": False, "stale": None}]},
               {"rg": 1, "bx": 0, "alns": [{"chrom": 0, "kind": "prim", "lo": 1, "hi": 1, "al": [1], "third": [], "rev": False, "stale": None}]},
               {"rg": 1, "bx": 0, "alns": [{"chrom": 0, "kind": "prim", "lo": 4, "hi": 4, "al": [1], "third": [], "rev": True, "stale": None}]}]
        o = dict(base["opts"], regions="span")
        out.append(dict(base, kind="hazard:region_span", seed=rng.randrange(1 << 30), groups=grs, opts=o))
    # (3) stale tags on an unmapped read without coordinate
    for rep in range(2):
        grs = [{"rg": 1, "bx": 0, "alns": [{"chrom": 0, "kind": "prim", "lo": 1, "hi": 2, "al": [0, 0], "third": [], "rev": False, "stale": [2, 100, 7]}]},
               {"rg": 1, "bx": 0, "alns": [{"chrom": 0, "kind": "unm", "lo": 1, "hi": 0, "al": [], "third": [], "rev": False, "stale": [1, 100, 30]}]}]
        out.append(dict(base, kind="hazard:stale_unplaced", seed=rng.randrange(1 << 30), groups=grs))
    # (4) a barcode cloud of two names touching two phase sets with equal top scores (30 : 30 with --reference)
    ch = {"sites": [site(100, [0, 1]), site(100, [1, 0]), site(200, [0, 1]), site(200, [0, 1])]}
    for rep in range(2):
        grs = []
        for k in range(12):
            for (j, al) in ((2, [k % 2]), (3, [(k // 2) % 2])):
                grs.append({"rg": 1, "bx": k + 1, "alns": [{"chrom": 0, "kind": "prim", "lo": j, "hi": j, "al": al, "third": [],
                                                            "rev": False, "stale": None}]})
        o = dict(base["opts"], linked=True)
        out.append(dict(base, kind="hazard:bx_tie", mode="ref", seed=rng.randrange(1 << 30), groups=grs, opts=o, chroms=[ch],
                        swap=[1, 1, 100]))
    # (6) an alignment overlapping three regions; (7) regions of one chromosome listed in descending order
    ch5 = {"sites": [site(100, [0, 1]) for _ in range(5)]}
    for spec in ("span3", "unsorted"):
        grs = [{"rg": 1, "bx": 0, "alns": [{"chrom": 0, "kind": "prim", "lo": 1, "hi": 5, "al": [0] * 5, "third": [], "rev": False, "stale": None}]},
               {"rg": 1, "bx": 0, "alns": [{"chrom": 0, "kind": "prim", "lo": 1, "hi": 1, "al": [1], "third": [], "rev": False, "stale": None}]},
               {"rg": 1, "bx": 0, "alns": [{"chrom": 0, "kind": "prim", "lo": 3, "hi": 3, "al": [1], "third": [], "rev": True, "stale": None}]}]
        if spec == "unsorted":
            grs = grs[1:]
        out.append(dict(base, kind="hazard:regions_" + spec, seed=rng.randrange(1 << 30), groups=grs, chroms=[ch5],
                        opts=dict(base["opts"], regions=spec)))
    # (5) one barcode in two samples: the read of the second sample shows nothing phased but lies near the first sample's cloud
    for rep in range(2):
        ch2 = {"sites": [{"kind": "snv", "len": 1, "calls": [{"ps": 100, "al": [0, 1]}, {"ps": 0, "al": [0, 1]}]} for _ in range(3)]}
        grs = [{"rg": 1, "bx": 1, "bxraw": "SHARED-1", "alns": [{"chrom": 0, "kind": "prim", "lo": 1, "hi": 2, "al": [0, 0], "third": [],
                                                             "rev": False, "stale": None}]},
               {"rg": 2, "bx": 1, "bxraw": "SHARED-1", "alns": [{"chrom": 0, "kind": "prim", "lo": 3, "hi": 3, "al": [1], "third": [],
                                                             "rev": False, "stale": None}]}]
        o = dict(base["opts"], linked=True)
        out.append(dict(base, kind="hazard:bx_two_samples", seed=rng.randrange(1 << 30), groups=grs, opts=o, chroms=[ch2],
                        samples=["s1", "s2"], rgs=[["g1", "s1"], ["g2", "s2"]]))
    return out


def scenarios(ctx):
    q = ctx.quick
    rng = ctx.rng
    scs = []
    pats2, groups2 = _gen(ctx, "p2", 3, 2, 2)
    scs += _gen_scenarios(ctx, "2", 3, 2, pats2, groups2, 14 if q else len(pats2), 48)
    pats3, groups3 = _gen(ctx, "p3", 2, 3, 2)
    scs += _gen_scenarios(ctx, "3", 2, 3, pats3, groups3, 6 if q else 60, 48)
    ctx.notes["tlc_enumerated"] = {"patterns_ploidy2_3sites": len(pats2), "group_shapes_3sites": len(groups2),
                                   "patterns_ploidy3_2sites": len(pats3), "group_shapes_2sites": len(groups3)}
    nrand = 120 if q else 1500
    for i in range(nrand):
        scs.append(_rand_scenario(rng, 2 if i % 4 else rng.choice([3, 4])))
        sc = scs[-1]
        if sc["opts"].get("regions") is None and rng.random() < 0.25:
            # a contig on which EVERY record is flagged unmapped but placed (RNAME/POS set, e.g. mates whose partner was filtered)
            sc["chroms"].append({"sites": []})
            for _ in range(rng.randint(1, 3)):
                sc["groups"].append({"rg": rng.randint(1, len(sc["rgs"])), "bx": 0,
                                     "alns": [{"chrom": len(sc["chroms"]) - 1, "kind": "unmp", "lo": 1, "hi": 0, "al": [], "third": [],
                                               "rev": rng.random() < 0.5, "stale": None}]})
        if sc["opts"].get("regions") is None and not sc["opts"].get("linked") and rng.random() < 0.35:
            for ch in sc["chroms"]:
                if len(ch["sites"]) >= 2:
                    ch["stretch"] = rng.randint(1, len(ch["sites"]) - 1)
    for i in range(60 if q else 600):
        scs.append(_bx_scenario(rng))
    for i in range(80 if q else 800):
        sc = _rand_scenario(rng, 2, long_reads=True)
        sc["kind"] = "regbnd"
        sc["opts"]["regions"] = "bnd"
        scs.append(sc)
    import sys
    # the hazard classes fail on the unchanged code; they are left out where a failure must mean something else
    # (mutation runs, and --selftest whose corrupted trace must be the only reason for a rejection)
    if not os.environ.get("WV_C10_NO_HAZARD") and "--selftest" not in sys.argv:
        scs += _hazard_scenarios(rng)
    # decorations / option variants drawn from a separate generator (the abstract worlds above are the same as without them):
    # "aux": every alignment carries further auxiliary fields of every BAM value type; threads0: --output-threads 1/2 on the
    # first run (the exchanged-haplotype run uses the other value); skip_missing: --skip-missing-contigs
    drng = random.Random(rng.randrange(1 << 30))
    for sc in scs:
        if sc["kind"].startswith("hazard:"):
            continue
        sc["aux"] = drng.random() < 0.6
        sc["opts"]["threads0"] = 1 if drng.random() < 0.3 else 0
        sc["opts"]["skip_missing"] = drng.random() < 0.3
    ctx.notes["scenario_kinds"] = {k: sum(1 for s in scs if s["kind"] == k) for k in sorted({s["kind"] for s in scs})}
    return scs


# ----------------------------------------------------------------------------------------------
# materialiser (runs inside drive)
def _layout(sc, rng):
    """reference, variants, per-chromosome geometry"""
    from wv import world as W
    chroms = []
    for ci, ch in enumerate(sc["chroms"]):
        K = len(ch["sites"])
        # "stretch": more than 100 kb (haplotag's distance threshold for the alignments of one name) between site g and g+1,
        # so that the mates of a pair (or the molecules of a barcode) lie far apart on the chromosome
        g_ = ch.get("stretch")
        far = STRETCH if g_ is not None else 0
        length = FIRST + SPACING * max(K, 1) + 220 + far
        ref = W.random_reference(rng, length)
        vs = []
        for j, s in enumerate(ch["sites"]):
            base = FIRST + SPACING * j + (far if g_ is not None and j >= g_ else 0)
            for off in range(0, 12):
                p = base + off
                if s["kind"] == "del" and not W.deletion_unshiftable(ref, p, s["len"]):
                    continue
                vs.append(W.make_variant(rng, ref, p, s["kind"], s["len"]))
                break
            else:
                # on a homopolymer-free reference a 1-bp deletion is always unshiftable
                vs.append(W.make_variant(rng, ref, base, "del", 1))
        right0 = FIRST + SPACING * max(K, 1) + 25 + far
        chroms.append({"name": f"c{ci + 1}", "len": length, "ref": ref, "vars": vs, "right": (right0, length - 8)})
    return chroms


def _qualstr(rng, n, mode):
    if mode == "ref":
        return "I" * n
    return "".join(chr(33 + rng.choice(PALETTE)) for _ in range(n))


def _build_alignment(sc, rng, chrom, a, zone_side):
    """-> (record fields pos/cigar/seq/qual, observations [(site_local_index(1-based), allele, q)])"""
    from wv import world as W
    vs = chrom["vars"]
    ref = chrom["ref"]
    mode = sc["mode"]
    if a["kind"] in ("unm", "unmp"):
        n = rng.randint(30, 60)
        seq = W.random_reference(rng, n, no_homopolymer=False)
        return {"pos": None, "cigar": None, "seq": seq, "qual": _qualstr(rng, n, mode)}, []
    if a["lo"] > a["hi"]:
        z = LEFT_ZONE if zone_side == 0 else chrom["right"]
        n = rng.randint(30, 60)
        s = rng.randint(z[0], max(z[0], z[1] - n))
        hap = W.Haplotype(ref, vs, [0] * len(vs))
        pos, cig, seq = hap.read(s, s + n)
        return {"pos": pos, "cigar": W.cigar_str(cig), "seq": seq, "qual": _qualstr(rng, len(seq), mode)}, []
    alleles = [0] * len(vs)
    for k, j in enumerate(range(a["lo"], a["hi"] + 1)):
        alleles[j - 1] = a["al"][k]
    hap = W.Haplotype(ref, vs, alleles)
    rs = vs[a["lo"] - 1].pos - rng.randint(12, 20)
    if vs[a["lo"] - 1].kind == "snv" and rng.random() < 0.12:
        rs = vs[a["lo"] - 1].pos            # the alignment STARTS exactly on its first variant (amplicon-like reads)
    re_ = vs[a["hi"] - 1].pos + len(vs[a["hi"] - 1].ref) + rng.randint(12, 20)
    hs, he = hap.ref_to_hap(rs), hap.ref_to_hap(re_)
    pos, cig, seq = hap.read(hs, he)
    assert pos == rs, (pos, rs)
    assert pos + W.cigar_reflen(cig) == re_, (pos, cig, re_)
    seq = list(seq)
    qual = list(_qualstr(rng, len(seq), mode))
    obs = []
    for k, j in enumerate(range(a["lo"], a["hi"] + 1)):
        v = vs[j - 1]
        al = a["al"][k]
        off = hap.ref_to_hap(v.pos) - hs
        if j in a["third"]:
            assert v.kind == "snv"
            seq[off] = rng.choice([b for b in "ACGT" if b not in (v.ref, v.alt)])
            continue                                   # shows neither allele: no observation
        if mode == "ref":
            q = 30
        elif v.kind == "snv":
            assert seq[off] == (v.alt if al else v.ref)
            q = ord(qual[off]) - 33
        elif v.kind == "del" and al == 0:
            assert len(v.ref) == 2
            off1 = hap.ref_to_hap(v.pos + 1) - hs
            assert seq[off1] == v.ref[1]
            q = ord(qual[off1]) - 33
        else:
            q = 30
        obs.append((j, al, q))
    return {"pos": pos, "cigar": W.cigar_str(cig), "seq": "".join(seq), "qual": "".join(qual)}, obs


FLAG = {"prim": 0, "dup": 1024, "sec": 256, "sup": 2048, "low": 0, "unm": 4, "unmp": 4}


def _aux_fields(rng):
    """Auxiliary fields of every BAM value type for one alignment, as (tag, value, type) for pysam's set_tags: printable
    character (A), hex string (H), strings (Z; also one-character, numeric-looking and punctuated ones), integers of every
    storage width (c C s S i I; small values in wide fields), float (f), numeric arrays of every element type (B).
    -> (fields in front of the serial tag, fields behind it, fields behind the stale HP/PS/PC tags)"""
    import array
    hexs = lambda n: "".join(rng.choice("0123456789ABCDEF") for _ in range(2 * n))
    pool = [
        ("tp", rng.choice("PSIi"), "A"), ("XS", rng.choice("+-"), "A"), ("ts", rng.choice("+-.?"), "A"),
        ("XA", rng.choice("7Z~!"), "A"),
        ("XH", hexs(rng.randint(1, 6)), "H"), ("Xh", hexs(1), "H"),
        ("XZ", rng.choice(["P", "7", "-3", "1.5", "+", "hello world", "a:b;c,d", "1A", "chr1,+100,5M,0;"]), "Z"),
        ("MD", f"{rng.randint(0, 30)}A{rng.randint(0, 30)}", "Z"), ("Xz", rng.choice("PSI+7"), "Z"),
        ("NM", rng.randint(0, 200), "C"), ("Xc", rng.randint(-128, -1), "c"), ("Xs", rng.randint(-32768, -129), "s"),
        ("XV", rng.randint(256, 65535), "S"), ("Xi", rng.randint(-2000000000, -32769), "i"),
        ("XU", rng.randint(65536, 4000000000), "I"), ("Xw", rng.randint(0, 100), "i"), ("XW", rng.randint(0, 100), "I"),
        ("Xv", rng.randint(0, 100), "s"), ("AS", rng.randint(0, 5000), "S"),
        ("Xf", rng.choice([0.1, -2.5, 1e-8, 3e10, 0.0, 1.0, 7.0, 1 / 3]), "f"), ("de", rng.random(), "f"),
        ("Ba", array.array("b", [rng.randint(-128, 127) for _ in range(rng.randint(1, 4))])),
        ("Bb", array.array("B", [rng.randint(0, 255) for _ in range(rng.randint(1, 4))])),
        ("Bc", array.array("h", [rng.randint(-32768, 32767) for _ in range(rng.randint(1, 4))])),
        ("Bd", array.array("H", [rng.randint(0, 65535) for _ in range(rng.randint(1, 4))])),
        ("Be", array.array("i", [rng.randint(-2000000000, 2000000000) for _ in range(rng.randint(1, 4))])),
        ("Bf", array.array("I", [rng.randint(0, 4000000000) for _ in range(rng.randint(1, 4))])),
        ("Bg", array.array("f", [rng.choice([0.1, 0.5, -3.25, 1e-6, 2.0]) for _ in range(rng.randint(1, 4))])),
        ("Bh", array.array("B", [7])), ("Bi", array.array("i", [1, 2, 3])),      # small values in wide elements
    ]
    n = rng.choice([0, 1, 1, 2, 3, 5, 8, len(pool)])
    parts = ([], [], [])
    for f in rng.sample(pool, n):
        parts[rng.choice([0, 1, 1, 2])].append(f)
    return parts


def _materialise(sc, d):
    """writes VCF(s), BAM, FASTA; returns paths and the abstract alignments keyed by XI"""
    from wv import world as W
    rng = random.Random(sc["seed"])
    chroms = _layout(sc, rng)
    # global site index
    site_index = {}
    sites_abs = []
    for ci, ch in enumerate(chroms):
        for j, v in enumerate(ch["vars"]):
            site_index[(ci, j + 1)] = len(sites_abs) + 1
            sites_abs.append({"chrom": ci + 1, "pos": v.pos, "len": len(v.ref)})
    contigs = [(c["name"], c["len"]) for c in chroms]
    fasta = None
    if sc["mode"] == "ref":
        fasta = W.write_fasta(os.path.join(d, "ref.fa"), {c["name"]: c["ref"] for c in chroms})

    def vcf(path, swap):
        recs = []
        for ci, ch in enumerate(chroms):
            for j, v in enumerate(ch["vars"]):
                calls = []
                for si, c in enumerate(sc["chroms"][ci]["sites"][j]["calls"]):
                    al = list(c["al"])
                    if swap and swap[0] == si + 1 and swap[1] == ci + 1 and c["ps"] > 0 and c["ps"] == swap[2]:
                        al = al[::-1]
                    if c["ps"] > 0:
                        calls.append(["|".join(map(str, al)), str(c["ps"])])
                    else:
                        calls.append(["/".join(map(str, al)), "."])
                recs.append({"chrom": ch["name"], "pos": v.pos + 1, "ref": v.ref, "alt": v.alt, "fmt": ["GT", "PS"], "calls": calls})
        return W.write_vcf(path, sc["samples"], contigs, recs, compress=True)

    vcf1 = vcf(os.path.join(d, "v1.vcf"), None)
    vcf2 = vcf(os.path.join(d, "v2.vcf"), sc["swap"]) if sc["swap"] else None
    # alignments
    reads = []
    absaln = {}
    xi = 0
    # decoration "aux": a separate generator, so that the worlds are the same with and without the decoration
    arng = random.Random(sc["seed"] * 13 + 5)
    for gi, g in enumerate(sc["groups"]):
        name = f"r{gi}"
        built = []
        for n, a in enumerate(g["alns"]):
            rec, obs = _build_alignment(sc, rng, chroms[a["chrom"]], a, n % 2)
            built.append((a, rec, obs))
        paired = len(built) == 2 and built[1][0]["kind"] in ("prim", "low", "unmp")
        for n, (a, rec, obs) in enumerate(built):
            xi += 1
            flag = FLAG[a["kind"]]
            if a["rev"] and a["kind"] not in ("unm", "unmp"):
                flag |= 16
            r = {"name": name, "mapq": rng.choice([0, 3, 19]) if a["kind"] == "low" else (0 if a["kind"] in ("unm", "unmp") else rng.choice([20, 60, 60])),
                 "seq": rec["seq"], "qual": rec["qual"], "cigar": rec["cigar"]}
            if a["kind"] == "unm":
                r["ref"], r["pos"] = -1, -1
            elif a["kind"] == "unmp":
                # placed with its mate
                m = built[1 - n][1] if len(built) == 2 else None
                r["ref"], r["pos"] = a["chrom"], (m["pos"] if m and m["pos"] is not None else 50)
            else:
                r["ref"], r["pos"] = a["chrom"], rec["pos"]
            if paired:
                other, orec = built[1 - n][0], built[1 - n][1]
                flag |= 1 | (64 if n == 0 else 128)
                if other["rev"] and other["kind"] != "unmp":
                    flag |= 32
                if other["kind"] == "unmp":
                    flag |= 8
                    r["mate"] = {"ref": a["chrom"], "pos": r["pos"]}
                elif a["kind"] == "unmp":
                    r["mate"] = {"ref": other["chrom"], "pos": orec["pos"]}
                else:
                    r["mate"] = {"ref": other["chrom"], "pos": orec["pos"]}
            r["flag"] = flag
            front, mid, back = _aux_fields(arng) if sc.get("aux") else ([], [], [])
            tags = front + [("XI", xi)]
            if g["bx"]:
                tags.append(("BX", g.get("bxraw") or f"BC{g['rg']}-{g['bx']}"))
            tags += mid
            if a["stale"]:
                tags += [("HP", a["stale"][0]), ("PS", a["stale"][1]), ("PC", a["stale"][2])]
            r["tags"] = tags + back
            if g["rg"]:
                r["rg"] = sc["rgs"][g["rg"] - 1][0]
            reads.append(r)
            absaln[xi] = {"obs": [[site_index[(a["chrom"], j)], al, q] for j, al, q in obs], "group": gi}
    # the BAM header lists one more contig that has no alignments and is unknown to the VCF
    bam_refs = contigs + [("cEmpty", 500)]
    bam = W.write_bam(os.path.join(d, "in.bam"), bam_refs, reads,
                      read_groups=[{"ID": i, "SM": s} for i, s in sc["rgs"]])
    return {"chroms": chroms, "sites": sites_abs, "fasta": fasta, "vcf1": vcf1, "vcf2": vcf2, "bam": bam, "absaln": absaln}


def _boundary_regions(rs, L, spans):
    """2-4 ascending disjoint regions of one chromosome whose borders sit on, one before or one after alignment starts and
    ends; consecutive regions are adjacent (next start = previous end), one base apart or separated by a gap"""
    X = set()
    for (p, e) in spans:
        X |= {p - 1, p, p + 1, e - 1, e, e + 1}
    X |= {rs.randrange(1, L) for _ in range(4)}
    X = sorted(x for x in X if 0 < x < L)
    n = rs.randint(2, 4)
    while len(X) < 2 * n:
        n -= 1
        if n == 0:
            return [(0, None)]
    pts = sorted(rs.sample(X, 2 * n))
    cuts = []
    s = 0 if rs.random() < 0.2 else pts[0]
    for k in range(n):
        e = pts[2 * k + 1]
        if e <= s:
            e = s + 1
        last = k == n - 1
        cuts.append((s, None if (last and rs.random() < 0.2) else e))
        if not last:
            x = rs.random()
            nxt = e if x < 0.4 else (e + 1 if x < 0.55 else max(e, pts[2 * k + 2]))
            s = nxt
    return cuts


def _regions(sc, m, recs):
    """region option -> (list of region strings, abstract [chrom, s, e]); never lets a record or a site hit two regions
    unless the scenario is the region_span hazard"""
    spec = sc["opts"]["regions"]
    if not spec:
        return None, []
    chroms = m["chroms"]
    out = []
    for ci, ch in enumerate(chroms):
        L = ch["len"]
        K = len(ch["vars"])
        if spec == "whole":
            cuts = [(0, None)]
        elif spec == "head":
            cuts = [(0, FIRST + SPACING * max(1, K // 2) - 20)]
        elif spec == "tail":
            cuts = [(FIRST + SPACING * (K // 2) - 20, None)]
        elif spec == "split2":
            mid = FIRST + SPACING * max(1, K // 2) - 25
            cuts = [(40, mid), (mid + 30, L - 30)]
        elif spec == "split3":
            a = FIRST + SPACING * max(1, K // 3) - 25
            b = FIRST + SPACING * max(2, (2 * K) // 3) - 25
            cuts = [(0, a), (a, b), (b, None)] if a < b else [(0, a), (a, None)]
        elif spec == "span":
            v = ch["vars"]
            cuts = [(v[0].pos - 5, v[0].pos + 10), (v[2].pos - 5, v[2].pos + 10)]
        elif spec == "span3":
            v = ch["vars"]
            cuts = [(v[0].pos - 5, v[0].pos + 10), (v[2].pos - 5, v[2].pos + 10), (v[4].pos - 5, v[4].pos + 10)]
        elif spec == "unsorted":
            v = ch["vars"]
            cuts = [(v[2].pos - 5, v[2].pos + 40), (v[0].pos - 5, v[0].pos + 10)]
        elif spec == "bnd":
            cuts = _boundary_regions(random.Random(sc["seed"] * 7 + ci), L,
                                     [(r["pos"], r["end"]) for r in recs if r["chrom"] == ci + 1])
        else:
            raise ValueError(spec)
        if ci > 0 and spec in ("head", "tail") and sc["seed"] % 2:
            continue                                   # only the first chromosome is requested
        out.append([ci, cuts])
    if spec == "bnd":
        # an alignment may overlap two regions; a name whose alignments are fetched more than twice in all (one alignment
        # overlapping three regions, or a mate pair of which one mate overlaps two) is the hazard class regions_span3
        for ci, cuts in out:
            names = {}
            for r in recs:
                if r["chrom"] == ci + 1:
                    names.setdefault(r["name"], []).append((r["pos"], r["end"]))
            for spans in names.values():
                while True:
                    hits = [[k for k, (a, b) in enumerate(cuts) if s < (b if b is not None else 10 ** 9) and e > a] for s, e in spans]
                    if sum(len(h) for h in hits) <= 2 or len(cuts) == 1:
                        break
                    allh = sorted({k for h in hits for k in h})
                    k0, k1 = allh[0], allh[1]
                    cuts[k0:k1 + 1] = [(cuts[k0][0], cuts[k1][1])]
        rs = random.Random(sc["seed"] * 11)
        if len(out) > 1 and rs.random() < 0.3:
            out.reverse()                               # chromosomes requested in another order than in the BAM
        if len(out) > 1 and rs.random() < 0.15:
            out.pop(rs.randrange(len(out)))
    elif spec not in ("span", "span3", "unsorted"):
        # merge regions until no alignment and no variant record overlaps two of them
        for ci, cuts in out:
            spans = [(r["pos"], r["end"]) for r in recs if r["chrom"] == ci + 1]
            spans += [(v.pos, v.pos + len(v.ref)) for v in chroms[ci]["vars"]]
            changed = True
            while changed:
                changed = False
                for (s, e) in spans:
                    hit = [k for k, (a, b) in enumerate(cuts) if s < (b if b is not None else 10 ** 9) and e > a]
                    if len(hit) > 1:
                        k0, k1 = hit[0], hit[-1]
                        cuts[k0:k1 + 1] = [(cuts[k0][0], cuts[k1][1])]
                        changed = True
                        break
    strs, absr = [], []
    for ci, cuts in out:
        nm = chroms[ci]["name"]
        for (a, b) in cuts:
            if a == 0 and b is None:
                strs.append(nm)
            elif b is None:
                strs.append(f"{nm}:{a + 1}")
            else:
                strs.append(f"{nm}:{a + 1}-{b}")
            absr.append({"chrom": ci + 1, "s": a, "e": b if b is not None else 10 ** 9})
    return strs, absr


_KEEP = ("HP", "PS", "PC")
_INTS = "cCsSiI"


def _jsonable(v):
    if isinstance(v, float):
        return round(v, 4)
    if hasattr(v, "typecode"):                       # array.array of a B field
        return [round(x, 4) if isinstance(x, float) else x for x in v]
    return v


def _read_records(path):
    """Every field of every alignment in file order.  "tags": (tag, value) sorted by tag as pysam's get_tags() reports them
    (the view of W.read_bam_records); "aux": the auxiliary fields in RECORD ORDER with their value types, once as the SAM
    text of the field (TAG:TYPE:VALUE, which tells A from Z from H and shows the element type of B arrays) and once as
    (tag, BAM type, exact value) from get_tags(with_value_type=True) with the storage width of scalar integers reduced
    to 'i' (SAM does not distinguish c/C/s/S/i/I; which width a writer picks is not part of the record's content)."""
    import pysam
    out = []
    with pysam.AlignmentFile(path, check_sq=False) as f:
        for a in f.fetch(until_eof=True):
            typed = []
            for t, v, ty in a.get_tags(with_value_type=True):
                if hasattr(v, "typecode"):
                    typed.append([t, "B" + v.typecode, [repr(x) for x in v]])
                else:
                    typed.append([t, "i" if ty in _INTS else ty, repr(v)])
            out.append({
                "name": a.query_name, "flag": a.flag, "ref": a.reference_id, "pos": a.reference_start, "mapq": a.mapping_quality,
                "cigar": a.cigarstring, "seq": a.query_sequence,
                "qual": pysam.qualities_to_qualitystring(a.query_qualities) if a.query_qualities is not None else None,
                "mref": a.next_reference_id, "mpos": a.next_reference_start, "tlen": a.template_length,
                "tags": sorted(((t, _jsonable(v)) for t, v in a.get_tags()), key=lambda x: x[0]),
                "aux": {"sam": a.to_string().split("\t")[11:], "typed": typed},
            })
    return out


def _project(rec, intern, auxintern):
    """-> rest: id of the record content without HP/PS/PC (fixed columns + values of the other tags), hp, ps, pc,
    tag dict, aux: id of the ordered, typed list of the other auxiliary fields"""
    tags = {t: v for t, v in rec["tags"]}
    rest = json.dumps({k: v for k, v in rec.items() if k not in ("tags", "aux")}, sort_keys=True) + json.dumps(
        [[t, v] for t, v in rec["tags"] if t not in _KEEP])
    rid = intern.setdefault(rest, len(intern) + 1)
    aux = json.dumps([[f for f in rec["aux"]["sam"] if f[:2] not in _KEEP], [x for x in rec["aux"]["typed"] if x[0] not in _KEEP]])
    aid = auxintern.setdefault(aux, len(auxintern) + 1)

    def iv(t):
        v = tags.get(t)
        if v is None:
            return -1
        return int(v) if isinstance(v, int) or (isinstance(v, str) and v.lstrip("-").isdigit()) else -2
    return rid, iv("HP"), iv("PS"), iv("PC"), tags, aid


def drive(sc):
    from wv import world as W
    from whatshap.cli.haplotag import run_haplotag
    base = os.path.join(os.environ.get("WV_SCRATCH", "/var/tmp/whverif"), "work")
    os.makedirs(base, exist_ok=True)
    d = tempfile.mkdtemp(prefix="c10-", dir=base)
    try:
        m = _materialise(sc, d)
        inrecs = _read_records(m["bam"])
        intern, auxintern, names, bxs = {}, {}, {}, {}
        rgidx = {rg: i + 1 for i, (rg, _) in enumerate(sc["rgs"])}
        aln = []
        pre = []
        for r in inrecs:
            rid, hp, ps, pc, tags, aid = _project(r, intern, auxintern)
            a = m["absaln"][tags["XI"]]
            unm = bool(r["flag"] & 4)
            placed = r["ref"] >= 0
            end = r["pos"] + 1
            if placed and r["cigar"]:
                import re
                end = r["pos"] + sum(int(n) for n, o in re.findall(r"(\d+)([MIDNSHP=X])", r["cigar"]) if o in "MDN=X")
            e = {"name": names.setdefault(r["name"], len(names) + 1), "unm": unm, "sec": bool(r["flag"] & 256),
                 "sup": bool(r["flag"] & 2048), "rev": bool(r["flag"] & 16), "mapq": r["mapq"], "rg": rgidx.get(tags.get("RG"), 0),
                 "chrom": r["ref"] + 1 if placed else 0, "pos": r["pos"] if placed else 0, "end": end if placed else 0,
                 "bx": bxs.setdefault(tags["BX"], len(bxs) + 1) if "BX" in tags else 0,
                 "obs": a["obs"], "rest": rid, "aux": aid, "stale": hp != -1 or ps != -1 or pc != -1}
            aln.append(e)
            pre.append(e)
        regions, absregions = _regions(sc, m, pre)
        opts = sc["opts"]
        given = opts["given"]
        use = set(sc["samples"]) if given is None else set(given)
        only = 0
        if opts["ignore_rg"]:
            assert len(use) == 1
            only = sc["samples"].index(next(iter(use))) + 1
        rgsample = [(sc["samples"].index(sm) + 1 if sm in use and sm in sc["samples"] else 0) for _, sm in sc["rgs"]]

        def world(swap):
            phase = []
            for si in range(len(sc["samples"])):
                row = []
                for ci, ch in enumerate(sc["chroms"]):
                    for s in ch["sites"]:
                        c = s["calls"][si]
                        al = list(c["al"])
                        if swap and swap[0] == si + 1 and swap[1] == ci + 1 and c["ps"] > 0 and c["ps"] == swap[2]:
                            al = al[::-1]
                        row.append({"ph": c["ps"] > 0, "ps": c["ps"], "al": al})
                phase.append(row)
            return {"ploidy": sc["ploidy"], "tagSupp": opts["tag_supp"], "linked": opts["linked"], "cutoff": opts.get("cutoff", 50000),
                    "ignoreRG": opts["ignore_rg"],
                    "onlySample": only, "rgSample": rgsample, "sites": m["sites"], "phase": phase, "regions": absregions,
                    "aln": [{k: v for k, v in a.items() if k != "stale"} for a in aln]}

        events = []
        runs = [(m["vcf1"], None)] + ([(m["vcf2"], sc["swap"])] if sc["swap"] else [])
        for ri, (vcf, swap) in enumerate(runs):
            outp = os.path.join(d, f"out{ri}.bam")
            exc = ""
            out = []
            # option variants the output must not depend on: --output-threads (alternating between the runs of a scenario),
            # --skip-missing-contigs (every contig with alignments is in the VCF header of these worlds)
            threads = 1 + (opts.get("threads0", 0) + ri) % 2
            try:
                run_haplotag(variant_file=vcf, alignment_file=m["bam"], output=outp,
                             reference=m["fasta"] if sc["mode"] == "ref" else False,
                             regions=list(regions) if regions else None, ignore_linked_read=not opts["linked"],
                             linked_read_distance_cutoff=opts.get("cutoff", 50000),
                             given_samples=list(given) if given else None, ignore_read_groups=opts["ignore_rg"],
                             haplotag_list=os.path.join(d, f"list{ri}.tsv") if opts["list"] else None,
                             tag_supplementary=opts["tag_supp"], ploidy=sc["ploidy"],
                             skip_missing_contigs=bool(opts.get("skip_missing")), output_threads=threads)
                for r in _read_records(outp):
                    rid, hp, ps, pc, _, aid = _project(r, intern, auxintern)
                    out.append({"rest": rid, "hp": hp, "ps": ps, "pc": pc, "aux": aid})
            except Exception as e:          # an exception of the command is an observation, not a harness failure
                exc = type(e).__name__
                out = []
            events.append({"ev": "Haplotag", "W": world(swap), "out": out, "exc": exc, "swap": list(swap) if swap else [],
                           "nstale": sum(1 for a in aln if a["stale"]), "kind": sc["kind"], "threads": threads,
                           "skipMissing": bool(opts.get("skip_missing")), "auxFields": bool(sc.get("aux"))})
        return events
    finally:
        shutil.rmtree(d, ignore_errors=True)


# ----------------------------------------------------------------------------------------------
def _usable(a):
    return not a["unm"] and not a["sec"] and not a["sup"] and a["mapq"] >= 20 and a["chrom"] != 0


def _hazards(W, nstale_unplaced):
    """input classes present in a world (used only to name the class of a failing input)"""
    hz = []
    smp = lambda a: W["onlySample"] if W["ignoreRG"] else (W["rgSample"][a["rg"] - 1] if a["rg"] else 0)

    def informative(a):
        s = smp(a)
        return s and any(W["phase"][s - 1][o[0] - 1]["ph"] and len(set(W["phase"][s - 1][o[0] - 1]["al"])) > 1 for o in a["obs"])
    byname = {}
    for a in W["aln"]:
        if _usable(a) and informative(a):
            byname.setdefault(a["name"], set()).add(a["rev"])
    if any(len(v) > 1 for v in byname.values()):
        hz.append("mates-on-opposite-strands-both-observing")
    hits = {}
    for a in W["aln"]:
        if a["chrom"]:
            n = sum(1 for r in W["regions"] if r["chrom"] == a["chrom"] and a["pos"] < r["e"] and a["end"] > r["s"])
            hits.setdefault((a["name"], a["chrom"]), []).append(n)
    if any(max(v) == 2 for v in hits.values()):
        hz.append("alignment-overlaps-two-regions")
    if any(sum(v) > 2 for v in hits.values()):
        hz.append("name-fetched-more-than-twice-by-the-regions")
    rg = W["regions"]
    if any(rg[k]["chrom"] == rg[m]["chrom"] and rg[k]["s"] > rg[m]["s"] for k in range(len(rg)) for m in range(k + 1, len(rg))):
        hz.append("regions-of-a-chromosome-not-ascending")
    if nstale_unplaced:
        hz.append("stale-tags-on-unplaced-unmapped-read")
    if W["linked"]:
        cut = W.get("cutoff", 50000)
        cloud_start = lambda a: min(b["pos"] for b in W["aln"] if b["bx"] == a["bx"] and b["chrom"] == a["chrom"]
                                    and abs(b["pos"] - a["pos"]) <= cut)
        clouds = {}
        for a in W["aln"]:
            s = smp(a)
            if a["bx"] and s and _usable(a):
                for o in a["obs"]:
                    c = W["phase"][s - 1][o[0] - 1]
                    if c["ph"] and len(set(c["al"])) > 1:
                        clouds.setdefault((s, a["bx"], a["chrom"], cloud_start(a)), {}).setdefault((W["sites"][o[0] - 1]["chrom"], c["ps"]), set()).add(a["name"])
        if any(len(sets) > 1 and len(set().union(*sets.values())) > 1 for sets in clouds.values()):
            hz.append("barcode-cloud-of-several-names-touching-two-phase-sets")
        owner = {}
        for a in W["aln"]:
            if a["bx"]:
                owner.setdefault(a["bx"], set()).add(smp(a))
        if any(len(v) > 1 for v in owner.values()):
            hz.append("barcode-shared-by-two-samples")
    return hz


def signature(sc, events, clause):
    ev = next((e for e in events if e.get("ev") == "Haplotag"), None)
    if ev is None:
        return f"{sc['kind']}: crashed"
    W = ev["W"]
    nsu = sum(1 for g in sc["groups"] for a in g["alns"] if a["kind"] == "unm" and a["stale"]) if not W["regions"] else 0
    hz = _hazards(W, nsu)
    exc = next((e["exc"] for e in events if e.get("exc")), "")
    return "haplotag input class: " + ("+".join(hz) if hz else "plain") + (f" exc={exc}" if exc else "")


def nontrivial(sc, events):
    for e in events:
        if e.get("ev") != "Haplotag" or e["exc"]:
            continue
        tagged = any(o["hp"] != -1 for o in e["out"])
        if tagged and any(o["hp"] == -1 for o in e["out"]) and any(a["obs"] for a in e["W"]["aln"]):
            return True
    return False


def selftest_corrupt(events):
    """corrupt one recorded field: exchange HP 1<->2 on one tagged output record; drop an output record elsewhere"""
    n = 0
    for e in events:
        if e.get("ev") != "Haplotag" or e["exc"] or e["swap"]:
            continue
        if n == 0:
            for o in e["out"]:
                if o["hp"] in (1, 2):
                    o["hp"] = 3 - o["hp"]
                    n = 1
                    break
        elif n == 1 and len(e["out"]) > 2:
            del e["out"][1]
            n = 2
            break
    return events


MANIFEST = {
    "text": "Haplotag.tla states the property on abstract inputs (alignments with the alleles they show, phased calls per sample, "
            "regions, options): Conservation, OtherTags (C10_Trace: the auxiliary fields other than HP/PS/PC keep order, value "
            "type and value; inputs carry fields of every BAM value type), Decision (unique arg-max of summed allele quality inside the reported phase set), "
            "UntaggedWhen (no phased het observed or ties), IneligibleUntagged, TaggedWhen, Symmetry under exchanging the "
            "haplotypes of a phase set. MC_Haplotag.tla is the two-pass design (scan in any order, decide, emit) run as a product "
            "with the exchanged-haplotype run; TLC checks all clauses on every tiny world. Gen_C10 lets TLC enumerate call "
            "patterns x name-group shapes; each is materialised as VCF+BAM (+FASTA), run through the real run_haplotag twice, "
            "and TLC judges the projected output BAMs (C10_Trace); seeded larger worlds extend to indels, read groups, "
            "barcodes, regions, ploidy 3-4.",
    "note": "trusted: TLC, Haplotag.tla, the materialiser (reads are built from allele vectors, observed alleles are by "
            "construction), pysam; allele qualities follow whatshap's detection conventions (ASSUMPTIONS)",
    "technique": "TLA+ spec + TLC model checking of the design + TLC trace validation of real CLI runs on spec-enumerated inputs",
}
