"""C15 - `whatshap polyphase` output obeys the input genotypes and forms contiguous blocks."""
import json
import math
import os
import random
import shutil
import tempfile

from .. import tlc

PROP = "C15"
TRACE_MODULE = "C15_Trace"
EXHAUSTIVE = True
NPROC = 8
SHARDS = 8
TASK_TIMEOUT = 600
RULE = ("four scenario families (plus get_optimal_assignments replays). (1) force: every (haplotype column, target genotype) case emitted by TLC from the initial "
        "states of MC_ForceGenotypes (all columns incl. undetermined slots x all genotypes up to ploidy 4-5 / 3 alleles), replayed "
        "into the real threading.force_genotypes with synthetic cluster paths / coverage maps / allele depths in the styles "
        "own (one cluster per slot), shared (collapsed clusters, empty clusters, extra clusters) and deep (>= 300 reads per "
        "cluster); non-trivial = a batch containing a determined column whose multiset differs from the genotype. "
        "(2) cuts: every breakpoint list emitted by TLC from the initial states of MC_PolyCuts (<= 4-5 variants, ploidy 2-3, "
        "sensitivities 0..5, adjacent positions), replayed into the real compute_cut_positions + phase_single_individual with "
        "solve_polyphase_instance stubbed to return that breakpoint list and haplotypes with seeded undetermined slots; "
        "non-trivial = a batch producing >= 2 phase sets in some case. (3) poly: seeded random polyploid worlds (ploidy 2-4, "
        "5-6 in thorough; 8-25 SNV sites incl. multi-allelic and adjacent ones, homozygous / missing / wrong-dosage genotypes, "
        "1-2 samples, 1-2 chromosomes, 30-80 error-free or noisy reads with uneven haplotype coverage, coverage gaps, collapsed "
        "haplotypes, pre-phased input) run through whatshap.cli.polyphase.run_polyphase for the grid block-cut sensitivity 0..5 x "
        "use_prephasing on/off; non-trivial = the output has >= 2 phased variants of a processed sample and >= 1 phase set. "
        "(4) twins: seeded worlds of ploidy 3-5 (6 in thorough) in which k >= 3 haplotypes are identical except for 1-3 groups of "
        "2-3 neighbouring read-linked sites where 1..k-1 of them carry another allele (genotypes such as 0/0/0/1), the other "
        "haplotypes differ nearly everywhere, 30-70 SNVs, long reads (15-30 sites), coverage of one twin 1x / 2x / 3x that of "
        "its twins, run for every block-cut sensitivity 0..5: the twins collapse into one read cluster passed by k threads and "
        "the groups are re-phased by the recursive sub-instances of phase_single_block; same non-triviality criterion")
ASSUMPTIONS = [
    "TLC; Polyphase.tla is the reading of the statement: 'read-covered heterozygous variants' of a sample = heterozygous calls of the "
    "run's ploidy spanned by a read of that sample spanning >= max(2, min_overlap) of them (computed from the world, SNVs only, so "
    "allele detection is unambiguous); a phase set may be named by a read-covered variant that itself stays unphased",
    "phase encoding = GT order/separator, PS, HP, HS, PQ of processed samples (exempt from passthrough); samples/chromosomes not "
    "selected and selected samples without linking reads must be copied verbatim (missing trailing values normalised)",
    "MC_ForceGenotypes assumes FiniteLikelihood (some permutation has a likelihood > -inf); the deep replay style does not",
    "only --tag PS is exercised (HP encoding of polyploid phasings is C09's subject); no indels, no --only-snvs",
    "e2e worlds are seeded samples, not an enumeration; ploidy 5-6 only in the thorough tier",
    "twins worlds: whether a world really reaches a sub-instance with >= 3 threads and a non-singleton block is decided by the "
    "heuristic, not recorded; about one world in six did when probed with a multiplicity-breaking change",
]

PHASE_KEYS = ("PS", "HP", "HS", "PQ")


# ================================================================================================
# design-level model checking
def design_mc(ctx):
    q = ctx.quick
    out = []
    cfg = tlc.write_cfg(os.path.join(ctx.workdir, "force.cfg"), spec="Spec",
                        consts={"MaxPloidy": 4 if q else 5, "NumAlleles": 3, "FiniteLikelihood": "TRUE"},
                        invariants=["TypeOK", "InsertsFit", "Forced", "UnaffectedUnchanged"])
    r = tlc.model_check("MC_ForceGenotypes", cfg=cfg, workers=8)
    r["what"] = "ForceGenotypes (force_genotypes transcription): determined column ends with the genotype's multiset; unaffected slots unchanged"
    out.append(r)
    for ploidy, maxvars in ([(3, 4)] if q else [(3, 4), (2, 5), (4, 3)]):
        cfg = tlc.write_cfg(os.path.join(ctx.workdir, f"cuts{ploidy}.cfg"), spec="Spec",
                            consts={"MaxVars": maxvars, "Ploidy": ploidy, "Sensitivities": "{0,1,2,3,4,5}"},
                            subst={"LogConfs": "MCLogConfs" if ploidy < 4 else "MCLogConfs2", "AccChoices": "MCAcc"},
                            invariants=["CutsIncreasing", "FirstCutAtStart", "AllNamed", "IntervalsHold", "PartitionHolds",
                                        "NamedByRunStart"])
        r = tlc.model_check("MC_PolyCuts", cfg=cfg, workers=8)
        r["what"] = (f"PolyCuts (compute_cut_positions + component translation, ploidy {ploidy}, <= {maxvars} variants): phase sets "
                     "are intervals named by their first variant for every phased subset; pairwise = partition formulation")
        out.append(r)
    return out


# ================================================================================================
# scenarios
def _assign_cases(rng, q):
    import itertools
    cases = []
    for p in (3, 4):
        choices = []
        for k in range(2, p + 1):
            for aff in itertools.combinations(range(p), k):
                for best in itertools.permutations(aff):
                    choices.append({"aff": list(aff), "best": list(best)})
        for a, b in itertools.product(choices, choices):          # every history of two breakpoints
            cases.append({"ploidy": p, "bps": [a, b]})
        for _ in range(1500 if q else 20000):                     # sampled histories of 3-5 breakpoints
            cases.append({"ploidy": p, "bps": [rng.choice(choices) for _ in range(rng.randint(3, 5))]})
    for _ in range(300 if q else 5000):
        p = rng.choice([5, 6])
        bps = []
        for _ in range(rng.randint(2, 5)):
            aff = sorted(rng.sample(range(p), rng.randint(2, p)))
            best = list(aff)
            rng.shuffle(best)
            bps.append({"aff": aff, "best": best})
        cases.append({"ploidy": p, "bps": bps})
    return cases


def scenarios(ctx):
    q = ctx.quick
    rng = ctx.rng
    scs = []
    ac = _assign_cases(rng, q)
    ctx.notes["assign_histories"] = len(ac)
    for i in range(0, len(ac), 400):
        scs.append({"kind": "assign", "cases": ac[i:i + 400]})
    # ---- (1) force_genotypes cases emitted by TLC -------------------------------------------------
    cfg = tlc.write_cfg(os.path.join(ctx.workdir, "force_emit.cfg"), spec="Spec",
                        consts={"MaxPloidy": 4 if q else 5, "NumAlleles": 3, "FiniteLikelihood": "TRUE"}, invariants=["Emit"])
    cases, _ = tlc.behaviours("MC_ForceGenotypes", cfg)
    ctx.notes["tlc_enumerated_force_cases"] = len(cases)
    by_p = {}
    for c in cases:
        by_p.setdefault(len(c["col"]), []).append(c)
    for p, cs in sorted(by_p.items()):
        cs.sort(key=lambda c: (c["col"], c["gt"]))
        for style in ("own", "shared", "deep"):
            for i in range(0, len(cs), 150):
                scs.append({"kind": "force", "style": style, "ploidy": p, "cases": cs[i:i + 150], "seed": rng.randrange(1 << 30)})
    # ---- (2) breakpoint lists emitted by TLC -----------------------------------------------------------
    ncuts = 0
    for ploidy, maxvars, confs in ([(2, 4, "MCLogConfs"), (3, 3, "MCLogConfs")] if q else
                                   [(2, 5, "MCLogConfs"), (3, 4, "MCLogConfs2"), (4, 3, "MCLogConfs2")]):
        cfg = tlc.write_cfg(os.path.join(ctx.workdir, f"cuts_emit{ploidy}.cfg"), spec="Spec",
                            consts={"MaxVars": maxvars, "Ploidy": ploidy, "Sensitivities": "{0,1,2,3,4,5}"},
                            subst={"LogConfs": confs, "AccChoices": "MCAcc"}, invariants=["Emit"])
        cs, _ = tlc.behaviours("MC_PolyCuts", cfg)
        ncuts += len(cs)
        for c in cs:
            for b in c["bps"]:
                b["haps"] = sorted(b["haps"])
        cs.sort(key=lambda c: json.dumps(c, sort_keys=True))
        for i in range(0, len(cs), 250):
            scs.append({"kind": "cuts", "cases": cs[i:i + 250], "seed": rng.randrange(1 << 30)})
    ctx.notes["tlc_enumerated_cut_cases"] = ncuts
    # ---- (3) seeded polyploid worlds x configuration grid ------------------------------------------------
    ploidies = [2, 3, 4, 5] if q else [2, 3, 4, 5, 6]
    per_cell = 8 if q else 120
    npoly = 0
    for p in ploidies:
        for sens in range(6):
            for prephase in (False, True):
                n = per_cell if p <= 4 else max(2, per_cell // 4)
                for _ in range(n):
                    scs.append(random_poly_scenario(rng, p, sens, prephase))
                    npoly += 1
    ctx.notes["polyphase_worlds"] = npoly
    # ---- (4) collapsed-haplotype worlds: >= 3 nearly identical haplotypes with uneven coverage x all sensitivities ----------
    ntw = 0
    for p in ([3, 4, 5] if q else [3, 4, 5, 6]):
        for sens in range(6):
            for _ in range((6 if p == 4 else 3) if q else (60 if p <= 5 else 15)):
                scs.append(twins_scenario(rng, p, sens))
                ntw += 1
    ctx.notes["collapsed_haplotype_worlds"] = ntw
    if not q:
        # the deep-coverage world: >= 249 reads per haplotype and one wrong-dosage genotype
        scs.append({"kind": "poly", "world": "deep", "seed": 3, "ploidy": 4, "sens": 4, "use_prephasing": False, "depth": 260})
    return scs


def random_poly_scenario(rng, p, sens, prephase):
    big = p >= 5
    return {
        "kind": "poly", "world": "random", "seed": rng.randrange(1 << 30), "ploidy": p, "sens": sens,
        "use_prephasing": prephase,
        "prephased_input": prephase or rng.random() < 0.25,
        "nsamples": rng.choice([1, 1, 2]),
        "nchrom": rng.choice([1, 1, 1, 2]),
        "select_sample": rng.random() < 0.5,
        "select_chrom": rng.random() < 0.5,
        "nvar": [8, 14] if big else [10, 25],
        "nreads": [30, 50] if big else [30, 80],
        "collapsed": rng.random() < 0.3,
        "uneven": rng.random() < 0.5,
        "gap": rng.random() < 0.4,
        "err": rng.choice([0.0, 0.0, 0.02, 0.05]),
        "ndrop": rng.choice([0.0, 0.0, 0.1, 0.3]),
        "wrong": rng.choice([0.0, 0.1, 0.3]),
        "distrust": rng.random() < 0.1,
        "min_overlap": rng.choice([2, 2, 2, 3]),
        "mav": rng.random() < 0.85,
        "haploid_sets": rng.random() < 0.2,
        "ignore_rg": rng.random() < 0.3,
    }


def twins_scenario(rng, p, sens):
    """A world in which k >= 3 haplotypes of one sample are identical except for a few groups of neighbouring sites (so they
    collapse into one read cluster passed by k threads, and the groups are re-phased recursively inside it), the other p - k
    haplotypes differ from them nearly everywhere, and the coverage of the twins is even or skewed by a factor 2-3."""
    k = rng.randint(3, max(3, p - 1))
    return {
        "kind": "poly", "world": "twins", "seed": rng.randrange(1 << 30), "ploidy": p, "sens": sens,
        "use_prephasing": False, "distrust": False,
        "ntwins": k,
        "nvar": rng.randint(30, 70),
        "spacing": rng.randint(25, 45),
        "span": rng.randint(15, 30),                  # read length in sites
        "depth": rng.choice([6, 10, 10, 14]),         # mean coverage per haplotype of weight 1
        "ngroups": rng.randint(1, 3),
        "skew": rng.choice([1.0, 2.0, 2.0, 3.0, 3.0]),
        "skewed": rng.choice(["carrier", "carrier", "any"]),
        "multiallelic": rng.random() < 0.15,
        "err": rng.choice([0.0, 0.0, 0.0, 0.01]),
        "min_overlap": 2,
    }


def _twins_world(sc, d):
    from .. import world as W
    rng = random.Random(sc["seed"])
    p, k, nvar, spacing = sc["ploidy"], sc["ntwins"], sc["nvar"], sc["spacing"]
    readlen = spacing * sc["span"]
    L = spacing * (nvar + 2) + readlen
    ref = W.random_reference(rng, L)
    pos = [spacing * (i + 1) + rng.randint(0, spacing // 3) for i in range(nvar)]
    sites = []
    for x in pos:
        alts = [b for b in BASES if b != ref[x]]
        rng.shuffle(alts)
        sites.append((x, ref[x], alts[:2 if sc["multiallelic"] and rng.random() < 0.3 else 1]))
    # ---- haplotypes: twins share one base row; the others avoid the twins' allele at most sites ----
    base = [rng.randint(0, len(a)) if rng.random() < 0.3 else 0 for (_, _, a) in sites]
    haps = [list(base) for _ in range(k)]
    for h in range(k, p):
        row = []
        for i, (_, _, a) in enumerate(sites):
            if rng.random() < 0.92:
                row.append(rng.choice([b for b in range(len(a) + 1) if b != base[i]]))
            else:
                row.append(base[i])
        haps.append(row)
    # ---- groups of 2-3 neighbouring sites at which a proper subset of the twins carries another allele ----
    carriers_all = set()
    free = list(range(3, nvar - 5))
    for _ in range(sc["ngroups"]):
        if not free:
            break
        g0 = rng.choice(free)
        glen = rng.randint(2, 3)
        free = [i for i in free if abs(i - g0) > 8]
        carriers = rng.sample(range(k), rng.randint(1, k - 1) if rng.random() < 0.4 else 1)
        carriers_all.update(carriers)
        for i in range(g0, g0 + glen):
            other = rng.choice([b for b in range(len(sites[i][2]) + 1) if b != base[i]])
            for h in carriers:
                haps[h][i] = other
            for h in range(k, p):
                if rng.random() < 0.7:
                    haps[h][i] = base[i]
    records = []
    for i, (x, r, alts) in enumerate(sites):
        gt = sorted(haps[h][i] for h in range(p))
        keys = ["GT"] + rng.sample(["GQ", "DP"], rng.randint(0, 2))
        vals = ["/".join(map(str, gt)) if k2 == "GT" else str(rng.randint(1, 99)) for k2 in keys]
        records.append({"chrom": "chr1", "pos": x + 1, "id": f"v{i}", "ref": r, "alt": ",".join(alts), "qual": "50",
                        "filter": "PASS", "info": "NOTE=n%d" % (i % 10), "fmt": keys, "calls": [vals]})
    W.write_vcf(os.path.join(d, "in.vcf"), ["s1"], [("chr1", L)], records, fmt_keys=["GT", "GQ", "DP"])
    # ---- reads: coverage of one twin (a carrier of a group allele, or any twin) is `skew` times that of its twins ----
    weights = [1.0] * k + [rng.choice([1.0, 1.5]) for _ in range(p - k)]
    cand = sorted(carriers_all) if (sc["skewed"] == "carrier" and carriers_all) else list(range(k))
    weights[rng.choice(cand)] = sc["skew"]
    seqs = []
    for h in range(p):
        q = list(ref)
        for i, (x, r, alts) in enumerate(sites):
            if haps[h][i] > 0:
                q[x] = alts[haps[h][i] - 1]
        seqs.append(q)
    nreads = int(sc["depth"] * p * L / readlen)
    hetidx = [i for i in range(nvar) if _het([haps[h][i] for h in range(p)])]
    covered = set()
    reads = []
    for n in range(nreads):
        st = rng.randrange(0, L - readlen)
        h = rng.choices(range(p), weights)[0]
        q = seqs[h][st:st + readlen]
        if sc["err"]:
            for (x, r, alts) in sites:
                if st <= x < st + readlen and rng.random() < sc["err"]:
                    q[x - st] = rng.choice([b for b in [r] + alts if b != q[x - st]])
        reads.append({"name": f"r{n}", "ref": 0, "pos": st, "cigar": f"{readlen}M", "seq": "".join(q), "mapq": 60})
        cov = [i for i in hetidx if st <= pos[i] < st + readlen]
        if len(cov) >= 2:
            covered.update(cov)
    W.write_bam(os.path.join(d, "in.bam"), [("chr1", L)], reads)
    return {"samples": ["s1"], "chroms": ["chr1"], "acc": {"s1": [100000 + pos[i] + 1 for i in sorted(covered)]},
            "ignore_rg": True}


# ================================================================================================
# (1) replay into the real force_genotypes
def _force_args(rng, style, p, cases):
    """Synthetic (path, haplotypes, genotypes, cov_map, allele_depths) with one position per case."""
    path, cov_map, ads, gts = [], [], [], []
    haps = [[] for _ in range(p)]
    for c in cases:
        col, gt = c["col"], c["gt"]
        alleles = sorted({a for a in col if a >= 0} | set(gt))
        for h in range(p):
            haps[h].append(col[h])
        g = {}
        for a in gt:
            g[a] = g.get(a, 0) + 1
        gts.append(g)
        if style in ("own", "deep"):
            pt = list(range(p))
            ad = {}
            for h in range(p):
                if col[h] < 0:
                    ad[h] = {}
                elif style == "deep":
                    ad[h] = {col[h]: rng.randint(300, 600)}
                else:
                    ad[h] = {col[h]: rng.randint(1, 30)}
                    if rng.random() < 0.4:
                        ad[h][rng.choice(alleles)] = ad[h].get(rng.choice(alleles), 0) + rng.randint(1, 3)
            cm = list(range(p))
        else:
            m = rng.randint(1, p)
            pt = sorted(rng.randrange(m) for _ in range(p))
            cids = sorted(set(pt))
            extra = [m + 1] if rng.random() < 0.4 else []
            ad = {}
            for cid in cids + extra:
                if rng.random() < 0.2:
                    ad[cid] = {}
                else:
                    ad[cid] = {a: rng.randint(0, 20) for a in alleles if rng.random() < 0.8}
            cm = sorted(cids + extra)
        path.append(pt)
        cov_map.append(cm)
        ads.append(ad)
    return path, haps, gts, cov_map, ads


def _drive_force(sc):
    from whatshap.polyphase.threading import force_genotypes
    rng = random.Random(sc["seed"])
    p = sc["ploidy"]
    cases = sc["cases"]
    path, haps, gts, cov_map, ads = _force_args(rng, sc["style"], p, cases)
    res = force_genotypes(path, haps, gts, cov_map, ads, 0.05)
    evs = []
    for i, c in enumerate(cases):
        evs.append({"ev": "Force", "style": sc["style"], "col": c["col"], "gt": c["gt"],
                    "res": [int(res[h][i]) for h in range(len(res))]})
    return evs


# ================================================================================================
# (2) replay into the real compute_cut_positions / phase_single_individual
def _drive_cuts(sc):
    import whatshap.cli.polyphase as cp
    from whatshap.core import Read, ReadSet, Genotype
    from whatshap.polyphase import PolyphaseParameter, PolyphaseResult, PhaseBreakpoint
    from whatshap.timer import StageTimer
    from whatshap.vcf import VariantTable, BiallelicVcfVariant
    rng = random.Random(sc["seed"])
    evs = []
    orig = cp.solve_polyphase_instance
    try:
        for c in sc["cases"]:
            n, p, acc = c["n"], c["ploidy"], c["acc"]
            hapl = [[rng.randint(0, 1) for _ in range(n)] for _ in range(p)]
            for j in range(n):
                if rng.random() < 0.25:
                    hapl[rng.randrange(p)][j] = -1
            bps = [PhaseBreakpoint(b["pos"], list(b["haps"]), 0.0 if b["lc"] == 1 else math.exp(0.4 * b["lc"])) for b in c["bps"]]
            result = PolyphaseResult(clustering=[], threads=[], haplotypes=hapl, breakpoints=bps)
            cp.solve_polyphase_instance = lambda am, gl, param, timers, pre=None, _r=result: _r
            rs = ReadSet()
            table = VariantTable("chr1", ["s"])
            for j, pos in enumerate(acc):
                table.add_variant(BiallelicVcfVariant(pos, "A", "C"), [Genotype([0] * (p - 1) + [1])], [None], [None], [None])
            if n == 1:
                r = Read("r0", 60, 0, 0)
                r.add_variant(acc[0], 0, 30)
                rs.add(r)
            for j in range(n - 1):
                r = Read(f"r{j}", 60, 0, 0)
                r.add_variant(acc[j], 0, 30)
                r.add_variant(acc[j + 1], 1, 30)
                rs.add(r)
            rs.sort()
            param = PolyphaseParameter(ploidy=p, ce_bundle_edges=False, distrust_genotypes=False, min_overlap=2,
                                       block_cut_sensitivity=c["sens"], plot_clusters=False, plot_threading=False, threads=1,
                                       use_prephasing=False)
            e = {"ev": "Cuts", "acc": acc, "sens": c["sens"], "exc": "", "sites": []}
            try:
                comps, hcomps, superreads = cp.phase_single_individual(rs, table, "s", param, None, StageTimer())
                phased = {v.position for v in superreads[0]} if len(superreads) else set()
                for sr in superreads:
                    assert {v.position for v in sr} == phased
                e["sites"] = [{"key": k, "ps": int(comps[k])} for k in acc if k in phased and k in comps]
                e["nundet"] = sum(1 for j in range(n) if any(h[j] < 0 for h in hapl))
            except Exception as ex:  # an exception here is a failure of clause Returns
                e["exc"] = type(ex).__name__
            evs.append(e)
    finally:
        cp.solve_polyphase_instance = orig
    return evs


# ================================================================================================
# (3) end-to-end worlds
BASES = "ACGT"


def _het(col):
    return len(set(col)) > 1


def build_world(sc, d):
    """Write in.vcf / in.bam into directory d; returns dict(samples, chroms, acc) where acc[sample] is the list of keys
    (chrom_id * 100000 + POS) of the sample's read-covered heterozygous variants."""
    from .. import world as W
    rng = random.Random(sc["seed"])
    p = sc["ploidy"]
    if sc.get("world") == "deep":
        return _deep_world(sc, d)
    if sc.get("world") == "twins":
        return _twins_world(sc, d)
    samples = list(sc.get("sample_names") or ["s1", "s2"])[:sc["nsamples"]]
    nchrom = sc["nchrom"]
    min_olp = max(2, sc["min_overlap"])
    contigs, records, reads = [], [], []
    acc = {s: [] for s in samples}
    use_rg = not (sc["ignore_rg"] and len(samples) == 1)
    for ci in range(nchrom):
        cname = f"chr{ci + 1}"
        nvar = rng.randint(*sc["nvar"])
        L = 200 + nvar * rng.randint(25, 60)
        ref = W.random_reference(rng, L)
        contigs.append((cname, L))
        pos = sorted(rng.sample(range(40, L - 40), nvar))
        for i in range(1, nvar):                      # some directly adjacent SNVs (key position+1 in the component map)
            if rng.random() < 0.1:
                pos[i] = pos[i - 1] + 1               # stays < pos[i+1] because pos[i-1] + 1 <= old pos[i]
        sites = []
        for x in pos:
            nalt = rng.choices([1, 2, 3], [0.7, 0.2, 0.1])[0]
            alts = [b for b in BASES if b != ref[x]]
            rng.shuffle(alts)
            sites.append((x, ref[x], alts[:nalt]))
        per_sample = {}
        for s in samples:
            collapsed = sc["collapsed"] and p >= 3
            truth, vgt, kinds = [], [], []
            for (x, r, alts) in sites:
                u = rng.random()
                na = len(alts)
                col = [rng.randint(0, na) for _ in range(p)]
                while not _het(col):
                    col = [rng.randint(0, na) for _ in range(p)]
                if collapsed:
                    col[1] = col[0]
                kind = "het" if _het(col) else "hom"
                g = sorted(col)
                if u < 0.12:
                    a = rng.randint(0, na)
                    col = [a] * p
                    g, kind = list(col), "hom"
                elif u < 0.17:
                    g, kind = [-1] * p, "missing"
                elif u < 0.17 + sc["wrong"] * 0.83:
                    g2 = sorted(rng.randint(0, na) for _ in range(p))
                    if _het(g2):
                        g, kind = g2, ("wrong" if g2 != sorted(col) else kind)
                truth.append(col)
                vgt.append(g)
                kinds.append(kind)
            per_sample[s] = (truth, vgt, kinds)
        # ---- pre-phased blocks in the input (per sample) ----
        preph = {s: {} for s in samples}          # site index -> (gt order, ps)
        if sc["prephased_input"]:
            for s in samples:
                if s in sc.get("unphased_samples", ()):      # this sample arrives without any phase information
                    continue
                truth, vgt, kinds = per_sample[s]
                hets = [i for i in range(nvar) if _het(vgt[i]) and -1 not in vgt[i]]
                i = 0
                while i < len(hets):
                    ln = rng.randint(2, 6)
                    blk = hets[i:i + ln]
                    i += ln + rng.randint(0, 2)
                    if len(blk) < 2 or rng.random() < 0.3:
                        continue
                    perm = rng.sample(range(p), p)
                    for j in blk:
                        if sorted(truth[j]) == vgt[j]:
                            order = [truth[j][perm[h]] for h in range(p)]
                        else:
                            order = rng.sample(vgt[j], p)
                        preph[s][j] = (order, pos[blk[0]] + 1)
        # ---- records ----
        for i, (x, r, alts) in enumerate(sites):
            keys = ["GT"] + rng.sample(["GQ", "DP", "XX"], rng.randint(0, 3))
            if any(i in preph[s] for s in samples):
                keys.insert(rng.randint(1, len(keys)), "PS")
            calls = []
            for s in samples:
                truth, vgt, kinds = per_sample[s]
                vals = []
                for k in keys:
                    if k == "GT":
                        if i in preph[s]:
                            vals.append("|".join(map(str, preph[s][i][0])))
                        else:
                            vals.append("/".join("." if a < 0 else str(a) for a in vgt[i]))
                    elif k == "PS":
                        vals.append(str(preph[s][i][1]) if i in preph[s] else ".")
                    elif k == "GQ":
                        vals.append(str(rng.randint(0, 99)))
                    elif k == "DP":
                        vals.append(str(rng.randint(1, 200)) if rng.random() < 0.8 else ".")
                    else:
                        vals.append(rng.choice(["a", "bb", "x7", "q"]))
                calls.append(vals)
            info = rng.choice([".", "NOTE=n%d" % rng.randint(0, 9), "FLAGGED", "AC=" + ",".join("1" for _ in alts),
                               "AC=" + ",".join("2" for _ in alts) + ";NOTE=zz;FLAGGED"])
            records.append({"chrom": cname, "pos": x + 1, "id": rng.choice([".", ".", f"rs{rng.randint(1, 9999)}"]), "ref": r,
                            "alt": ",".join(alts), "qual": rng.choice([".", "30", "7", "99"]),
                            "filter": rng.choice([".", "PASS", "PASS", "LowQual"]), "info": info, "fmt": keys, "calls": calls})
        # ---- reads ----
        for s in samples:
            truth, vgt, kinds = per_sample[s]
            seqs = []
            for h in range(p):
                q = list(ref)
                for i, (x, r, alts) in enumerate(sites):
                    a = truth[i][h]
                    if a > 0:
                        q[x] = alts[a - 1]
                seqs.append(q)
            weights = [1.0] * p
            if sc["uneven"]:
                weights = [rng.choice([0.15, 0.5, 1.0, 3.0]) for _ in range(p)]
            dropout = (rng.randrange(p), rng.randint(L // 3, 2 * L // 3)) if sc["uneven"] and rng.random() < 0.5 else None
            gap = None
            if sc["gap"]:
                g0 = rng.randint(L // 5, 3 * L // 5)
                gap = (g0, g0 + rng.randint(20, L // 4))
            nreads = max(4, rng.randint(*sc["nreads"]) // nchrom)
            spacing = max(10, L // max(1, nvar))
            hetidx = [i for i in range(nvar) if _het(vgt[i]) and -1 not in vgt[i] and (sc["mav"] or len(sites[i][2]) == 1)]
            covered = set()
            made = 0
            tries = 0
            while made < nreads and tries < nreads * 20:
                tries += 1
                h = rng.choices(range(p), weights)[0]
                ln = rng.randint(spacing, min(L - 1, spacing * rng.choice([2, 3, 5, 8])))
                st = rng.randint(0, L - ln)
                if gap and st < gap[1] and st + ln > gap[0]:
                    continue
                if dropout and h == dropout[0] and st + ln > dropout[1]:
                    continue
                q = seqs[h][st:st + ln]
                dropped = set()
                for i, (x, r, alts) in enumerate(sites):
                    if st <= x < st + ln and sc["err"] and rng.random() < sc["err"]:
                        q[x - st] = rng.choice([b for b in [r] + alts if b != q[x - st]])
                    if st <= x < st + ln and sc.get("ndrop") and rng.random() < sc["ndrop"]:
                        q[x - st] = "N"               # no allele of the site: the read does not cover this variant
                        dropped.add(i)
                rd = {"name": f"{s}_{cname}_r{made}", "ref": ci, "pos": st, "cigar": f"{ln}M", "seq": "".join(q), "mapq": 60}
                if use_rg:
                    rd["rg"] = "rg_" + s
                reads.append(rd)
                made += 1
                cov = [i for i in hetidx if st <= pos[i] < st + ln and i not in dropped]
                if len(cov) >= min_olp:
                    covered.update(cov)
            acc[s].extend((ci + 1) * 100000 + pos[i] + 1 for i in sorted(covered))
    fmt_keys = ["GT", "GQ", "DP", "XX"]
    if sc["prephased_input"] or rng.random() < 0.5:
        fmt_keys.insert(1, "PS")
    extra = ["##phasing=none"] if rng.random() < 0.3 else []
    W.write_vcf(os.path.join(d, "in.vcf"), samples, contigs, records, fmt_keys=fmt_keys, extra_header=extra)
    W.write_bam(os.path.join(d, "in.bam"), contigs, reads,
                read_groups=[{"ID": "rg_" + s, "SM": s} for s in samples] if use_rg else ())
    return {"samples": samples, "chroms": [c for c, _ in contigs], "acc": acc, "ignore_rg": not use_rg}


def _deep_world(sc, d):
    """Tetraploid, 4 SNVs, `depth` error-free reads per haplotype spanning all sites; the VCF dosage of site 3 is wrong
    (truth 0/0/1/1, VCF 0/0/0/1)."""
    from .. import world as W
    rng = random.Random(sc["seed"])
    L = 400
    ref = W.random_reference(rng, L)
    poss = [100, 150, 200, 250]
    cols = [[0, 0, 1, 1], [0, 1, 0, 1], [0, 1, 1, 0], [0, 0, 1, 1]]
    vgt = ["0/0/1/1", "0/0/1/1", "0/0/0/1", "0/0/1/1"]
    recs, alts = [], []
    for i, x in enumerate(poss):
        alt = [b for b in BASES if b != ref[x]][0]
        alts.append(alt)
        recs.append({"chrom": "chr1", "pos": x + 1, "ref": ref[x], "alt": alt, "fmt": ["GT"], "calls": [[vgt[i]]]})
    W.write_vcf(os.path.join(d, "in.vcf"), ["s1"], [("chr1", L)], recs, fmt_keys=["GT"])
    reads = []
    for h in range(4):
        q = list(ref)
        for i, x in enumerate(poss):
            if cols[i][h]:
                q[x] = alts[i]
        q = "".join(q)
        for k in range(sc["depth"]):
            reads.append({"name": f"r{h}_{k}", "pos": 50, "cigar": "300M", "seq": q[50:350]})
    W.write_bam(os.path.join(d, "in.bam"), [("chr1", L)], reads)
    return {"samples": ["s1"], "chroms": ["chr1"], "acc": {"s1": [100000 + x + 1 for x in poss]}, "ignore_rg": True}


class _Intern:
    def __init__(self):
        self.d = {}

    def __call__(self, x):
        return self.d.setdefault(x, len(self.d) + 1)


def project_vcf(path, chrom_ids, intern):
    """Abstract view of a VCF file for Polyphase.tla (see the module header)."""
    from .. import world as W
    header, samples, recs = W.read_vcf_text(path)
    defs = []
    for l in header:
        for kind in ("FORMAT", "INFO", "FILTER", "contig"):
            pre = f"##{kind}=<ID="
            if l.startswith(pre):
                defs.append(intern(kind + "/" + l[len(pre):].split(",")[0].split(">")[0]))
    out = []
    for r in recs:
        keys = [k for k in r["fmt"] if k not in PHASE_KEYS]
        calls = []
        for c in r["calls"]:
            gts = c.get("GT", ".")
            gt = [-1 if a in (".", "") else int(a) for a in gts.replace("|", "/").split("/")]
            ps = c.get("PS", ".")
            calls.append({
                "gt": gt, "ph": "|" in gts, "ps": int(ps) if ps not in (".", "") else -1,
                "rest": intern(tuple((k, c[k]) for k in keys if k != "GT" and c[k] not in (".", ""))),
                "raw": intern(tuple((k, c[k]) for k in r["fmt"] if c[k] not in (".", ""))),   # missing values normalised
            })
        out.append({"c": chrom_ids[r["chrom"]], "pos": r["pos"],
                    "fixed": intern((r["id"], r["ref"], r["alt"], r["qual"], r["filter"], r["info"])),
                    "keys": [intern("key/" + k) for k in keys], "calls": calls})
    return defs, [intern("sample/" + s) for s in samples], out


def _drive_poly(sc):
    import logging
    from whatshap.cli.polyphase import run_polyphase
    logging.disable(logging.CRITICAL)
    base = os.path.join(os.environ.get("WV_SCRATCH", "/var/tmp/whverif"), "work")
    os.makedirs(base, exist_ok=True)
    d = tempfile.mkdtemp(prefix="c15-", dir=base)
    try:
        w = build_world(sc, d)
        samples, chroms = w["samples"], w["chroms"]
        deep = sc.get("world") in ("deep", "twins")      # worlds with one sample and one chromosome, default options
        sel_samples = [samples[0]] if (not deep and sc["select_sample"]) else None
        sel_chroms = [chroms[0]] if (not deep and sc["select_chrom"]) else None
        kw = dict(phase_input_files=[os.path.join(d, "in.bam")], variant_file=os.path.join(d, "in.vcf"), ploidy=sc["ploidy"],
                  output=os.path.join(d, "out.vcf"), block_cut_sensitivity=sc["sens"], threads=1,
                  use_prephasing=sc["use_prephasing"], ignore_read_groups=w["ignore_rg"])
        if not deep:
            kw.update(samples=sel_samples, chromosomes=sel_chroms, distrust_genotypes=sc["distrust"],
                      min_overlap=sc["min_overlap"], mav=sc["mav"], include_haploid_sets=sc["haploid_sets"])
        exc = ""
        try:
            run_polyphase(**kw)
        except Exception as ex:  # no exception is expected behaviour on these inputs: clause Returns
            exc = type(ex).__name__ + ":" + str(ex)[:120]
        intern = _Intern()
        chrom_ids = {c: i + 1 for i, c in enumerate(chroms)}
        inh, ins, inr = project_vcf(os.path.join(d, "in.vcf"), chrom_ids, intern)
        e = {"ev": "Poly", "ploidy": sc["ploidy"], "distrust": bool(sc.get("distrust", False)), "exc": exc, "sens": sc["sens"],
             "prephasing": bool(sc["use_prephasing"]),
             "targets": [i + 1 for i, s in enumerate(samples) if sel_samples is None or s in sel_samples],
             "chroms": [chrom_ids[c] for c in chroms if sel_chroms is None or c in sel_chroms],
             "inh": inh, "ins": ins, "inr": inr, "acc": [w["acc"][s] for s in samples]}
        if exc:
            e.update(outh=[], outs=[], outr=[])
        else:
            e["outh"], e["outs"], e["outr"] = project_vcf(os.path.join(d, "out.vcf"), chrom_ids, intern)
        return [e]
    finally:
        shutil.rmtree(d, ignore_errors=True)


def _drive_assign(sc):
    """get_optimal_assignments (local optima, no pre-phasing) on synthetic breakpoint histories"""
    from whatshap.polyphase.reorder import get_optimal_assignments
    from types import SimpleNamespace
    import itertools
    evs = []
    for case in sc["cases"]:
        p = case["ploidy"]
        bps, lllh = [], []
        for k, bp in enumerate(case["bps"]):
            aff = bp["aff"]
            bps.append(SimpleNamespace(position=10 * (k + 1), haplotypes=list(aff)))
            d = {}
            for perm in itertools.permutations(aff):
                d[tuple(perm)] = 0.0 if list(perm) == bp["best"] else -5.0 - 0.01 * len(d)
            lllh.append(d)
        try:
            asg = get_optimal_assignments(bps, lllh, p, None)
            evs.append({"ev": "Assign", "ploidy": p, "bps": case["bps"], "asg": [[int(x) for x in a] for a in asg], "exc": ""})
        except Exception as e:
            evs.append({"ev": "Assign", "ploidy": p, "bps": case["bps"], "asg": [], "exc": type(e).__name__})
    return evs


def drive(sc):
    k = sc["kind"]
    if k == "assign":
        return _drive_assign(sc)
    if k == "force":
        return _drive_force(sc)
    if k == "cuts":
        return _drive_cuts(sc)
    return _drive_poly(sc)


# ================================================================================================
def _phased_processed(e):
    """[(sample idx, key, ps)] of phased calls of processed samples in the output."""
    out = []
    if e.get("ev") != "Poly" or e["exc"]:
        return out
    for r in e["outr"]:
        for s, c in enumerate(r["calls"], start=1):
            if c["ph"] and s in e["targets"] and r["c"] in e["chroms"] and any(k // 100000 == r["c"] for k in e["acc"][s - 1]):
                out.append((s, r["c"] * 100000 + r["pos"], c["ps"]))
    return out


def nontrivial(sc, events):
    k = sc["kind"]
    if k == "assign":
        return any(e.get("ev") == "Assign" and len(e["bps"]) >= 2 and e["asg"] and e["asg"][-1] != sorted(e["asg"][-1]) for e in events)
    if k == "force":
        return any(e.get("ev") == "Force" and -1 not in e["col"] and sorted(e["col"]) != sorted(e["gt"]) for e in events)
    if k == "cuts":
        return any(e.get("ev") == "Cuts" and len({s["ps"] for s in e["sites"]}) >= 2 for e in events)
    ph = _phased_processed(events[0]) if events else []
    return len(ph) >= 2


def signature(sc, events, clause):
    k = sc["kind"]
    if k == "assign":
        return "get_optimal_assignments replay (breakpoint histories)"
    if k == "force":
        if sc["style"] == "deep":
            return "force_genotypes replay style=deep (>=300 reads per cluster: every permutation's likelihood underflows to -inf)"
        return f"force_genotypes replay style={sc['style']}"
    if k == "cuts":
        return "compute_cut_positions/phase_single_individual replay"
    if sc.get("world") == "deep":
        return "polyphase world=deep (260 reads per haplotype, wrong-dosage genotype)"
    e = events[0] if events else {}
    if sc.get("world") == "twins":
        return (f"polyphase world=twins ploidy={sc['ploidy']} twins={sc['ntwins']} skew={sc['skew']}"
                + (f" exception={e['exc'].split(':')[0]}" if e.get("ev") == "Poly" and e.get("exc") else ""))
    if e.get("ev") == "Poly" and e.get("exc"):
        return f"polyphase world=random ploidy={sc['ploidy']} exception={e['exc'].split(':')[0]}"
    return f"polyphase world=random ploidy={sc['ploidy']}"


def selftest_corrupt(events):
    done = set()
    for e in events:
        if e["ev"] == "Force" and "force" not in done and -1 not in e["col"] and len(set(e["gt"])) > 1:
            e["res"] = [e["gt"][0]] * len(e["res"])
            done.add("force")
        if e["ev"] == "Cuts" and "cuts" not in done and len(e["sites"]) >= 2 and e["sites"][0]["ps"] == e["sites"][-1]["ps"]:
            e["sites"][-1]["ps"] = e["sites"][-1]["key"] + 1
            done.add("cuts")
        if e["ev"] == "Poly" and "poly" not in done and not e["exc"] and not e["distrust"]:
            for s, key, ps in _phased_processed(e):
                r = next(r for r in e["outr"] if r["c"] * 100000 + r["pos"] == key)
                g = r["calls"][s - 1]["gt"]
                g[0] = g[0] + 1          # an allele the input genotype does not have that often
                done.add("poly")
                break
    return events


MANIFEST = {
    "text": "Polyphase.tla states the property as a relation between input VCF, output VCF and configuration (records, fixed "
            "fields, samples, header definitions, unselected samples/chromosomes and non-phase FORMAT fields passed through; a "
            "phased call has exactly the input genotype's allele multiset; only heterozygous calls of the run's ploidy are phased; "
            "the phased sites of a sample, ordered by position, fall into disjoint intervals of its read-covered heterozygous "
            "variants, each named by the first variant of its interval). TLC model-checks two implementation-shaped modules "
            "against it: ForceGenotypes.tla (force_genotypes as a state machine over one haplotype column, exhaustive for ploidy "
            "<= 4-5, 3 alleles, every column and target genotype) and PolyCuts.tla (compute_cut_positions and the translation of "
            "cuts to components, every breakpoint list over <= 4-5 variants, ploidy 2-4, sensitivities 0..5, every phased "
            "subset). Every enumerated column/genotype case is replayed into the real force_genotypes (three synthetic depth "
            "styles), every enumerated breakpoint list into the real compute_cut_positions/phase_single_individual, and seeded "
            "polyploid worlds (multi-allelic, uneven coverage, collapsed haplotypes, gaps, pre-phased input, 1-2 samples and "
            "chromosomes) are run through run_polyphase for sensitivities 0..5 with and without --use-prephasing; worlds with >= 3 "
            "collapsed (nearly identical) haplotypes, read-linked heterozygous site groups inside the collapsed cluster and even or "
            "2-3x skewed coverage among the collapsed haplotypes are run for sensitivities 0..5; TLC judges "
            "every recorded call / run against Polyphase.tla.",
    "note": "trusted: TLC, Polyphase.tla as reading of the statement, the world builder's notion of read-covered heterozygous "
            "variants (SNV worlds, exact), the projection of VCF text; phasing quality is not judged; only tag PS; end-to-end "
            "worlds are seeded samples",
    "technique": "TLA+ relation spec + TLC model checking of two implementation-shaped modules + replay of TLC-enumerated cases "
                 "into the real functions + TLC trace validation of whole `whatshap polyphase` runs",
}
