"""C20 - auxiliary reports cover the whole run and agree with the phased VCF."""
from .. import phaseprops as PP
from .. import phaseworld as PW

PROP = "C20"
TRACE_MODULE = PP.TRACE_MODULE
TASK_TIMEOUT = PP.TASK_TIMEOUT
drive = PP.drive
own_clause = PP.own_clause_for(PROP)
EXHAUSTIVE = False
RULE = ("worlds with 1-3 chromosomes x 1-2 families (unrelated samples, trio, quartet, trio + unrelated), every subset of "
        "--output-read-list / --changed-genotype-list / --recombination-list, with and without --distrust-genotypes (weak PL values and "
        "deliberately wrong genotypes so that changes happen) and --ped; true haplotypes of children carry recombinations; "
        "non-trivial = at least two chromosomes or two families processed and at least one list requested")
ASSUMPTIONS = [
    "expected list content is derived by TLC from the H1 hook records (reads, partition, components, transmission vector) and from the raw input/output VCF difference",
    "for the recombination list only 'inside one phase set', 'values as in the transmission vector' and 'every chromosome/family with an event is represented' are required, not the exact event rule",
]


def design_mc(ctx):
    return PP.design_mc_pipeline(ctx)


def signature(sc, events, clause):
    w = sc["world"]
    o = w.get("opts", {})
    return (f"chroms={'many' if len(w['chroms']) > 1 else 1} ped={'yes' if o.get('ped') else 'no'} distrust={bool(o.get('distrust'))}")


def scenarios(ctx):
    rng = ctx.rng
    scs = []
    for i in range(1300 if ctx.quick else 15000):
        fam = rng.choice(["single", "two", "trio", "quartet", "trio+1"])
        ns = {"single": 1, "two": 2, "trio": 3, "quartet": 4, "trio+1": 4}[fam]
        ped = {"trio": [["s1", "s2", "s3"]], "quartet": [["s1", "s2", "s3"], ["s1", "s2", "s4"]], "trio+1": [["s1", "s2", "s3"]]}.get(fam, [])
        if ped and rng.random() < 0.4:
            ped = PW.shuffle_roles(rng, ped, [f"s{k + 1}" for k in range(ns)])
        w = PW.rand_world(rng, nsamples=ns, nchroms=rng.choice([1, 2, 2, 3]), ped=ped, max_sites=rng.choice([4, 7]),
                          het_prob=0.8, depth=(1, 3), kinds=("snv", "snv", "ins", "del"))
        o = {"tag": rng.choice(["PS", "HP"]), "ped": bool(ped),
             "lists": {"read": rng.random() < 0.7, "gt": rng.random() < 0.7, "recomb": bool(ped) and rng.random() < 0.8}}
        if rng.random() < 0.45:
            o["distrust"] = True
            w["pl_weak"] = True
            w["errfree"] = False
            # a few deliberately wrong genotypes (truth says hom, VCF says het and vice versa)
            vg = {s: [[f"{min(x)}/{max(x)}" for x in w["truth"][s][ci]] for ci in range(len(w["chroms"]))] for s in w["samples"]}
            for s in w["samples"]:
                for ci in range(len(w["chroms"])):
                    for si in range(len(vg[s][ci])):
                        if rng.random() < 0.25:
                            vg[s][ci][si] = rng.choice(["0/1", "0/0", "1/1"])
            w["vcf_gt"] = vg
        if rng.random() < 0.4:
            w["stale_lists"] = True      # the list paths hold an earlier run's lists
        w["opts"] = o
        if rng.random() < 0.25:
            PW.add_decoys(rng, w)
        if rng.random() < 0.3:
            w["stale_phase"] = rng.choice(["PS", "HP"])    # the input VCF already carries unrelated phase statements
        if rng.random() < 0.3:
            w["gt_desc"] = True                            # unphased heterozygous genotypes written 1/0
        if rng.random() < 0.15:
            w["first_at_zero"] = True                      # the first site on the first base of its contig
        if rng.random() < 0.2:
            w["multi_before"] = [[ci_, si_] for ci_, ch_ in enumerate(w["chroms"]) for si_ in range(len(ch_["sites"])) if rng.random() < 0.4]
        scs.append({"world": w})
    # ---- nested phase sets with a forced recombination behind the inner set (quartets) ----
    for i in range(60 if ctx.quick else 1500):
        scs.append({"world": nested_world(rng)})
    return scs


def nested_world(rng):
    """Quartet. M sites: one parent homozygous (they form the pedigree's master phase set); H sites: heterozygous in all four
    members and linked by reads only to each other (a separate phase set NESTED inside the master set). The second child
    switches its haplotype from the heterozygous parent somewhere among the M sites (often behind the inner set), which
    the genotypes of the two children force."""
    nm1, nh, nm2 = rng.randint(1, 3), rng.randint(2, 3), rng.randint(2, 4)
    kinds = ["M"] * nm1 + ["H"] * nh + ["M"] * nm2
    n = len(kinds)
    het_parent = rng.choice(["s1", "s2"])          # the parent that is heterozygous at the M sites
    hom_parent = "s2" if het_parent == "s1" else "s1"
    hom_allele = rng.randint(0, 1)
    mpos = [i for i, k in enumerate(kinds) if k == "M"]
    switch_at = rng.choice(mpos[1:]) if len(mpos) > 1 else n   # child 2 switches before this site
    truth = {s: [[]] for s in ("s1", "s2", "s3", "s4")}
    for i, k in enumerate(kinds):
        hp = rng.choice([[0, 1], [1, 0]])          # phase of the heterozygous parent (free)
        truth[het_parent][0].append(list(hp))
        truth[hom_parent][0].append([hom_allele, hom_allele] if k == "M" else rng.choice([[0, 1], [1, 0]]))
    # transmissions: child 1 constant, child 2 switches its haplotype from het_parent at switch_at
    t1_het, t1_hom = rng.randint(0, 1), rng.randint(0, 1)
    t2_het, t2_hom = rng.randint(0, 1), rng.randint(0, 1)
    for i, k in enumerate(kinds):
        for child, th, to in (("s3", t1_het, t1_hom), ("s4", (t2_het if i < switch_at else 1 - t2_het), t2_hom)):
            a_het = truth[het_parent][0][i][th]
            a_hom = truth[hom_parent][0][i][to]
            pair = [a_het, a_hom] if het_parent == "s1" else [a_hom, a_het]
            truth[child][0].append(pair)
    # make the H sites heterozygous in both children too (choose the hom_parent's transmitted allele accordingly)
    for i, k in enumerate(kinds):
        if k == "H":
            for child in ("s3", "s4"):
                a, b = truth[child][0][i]
                if a == b:
                    # flip the allele coming from hom_parent (which is heterozygous at H sites) by re-phasing that parent there
                    truth[hom_parent][0][i] = truth[hom_parent][0][i][::-1]
                    for c2, to in (("s3", t1_hom), ("s4", t2_hom)):
                        th2 = t1_het if c2 == "s3" else (t2_het if i < switch_at else 1 - t2_het)
                        a_het = truth[het_parent][0][i][th2]
                        a_hom = truth[hom_parent][0][i][to]
                        truth[c2][0][i] = [a_het, a_hom] if het_parent == "s1" else [a_hom, a_het]
    hidx = [i for i, k in enumerate(kinds) if k == "H"]
    reads = [{"sample": rng.choice(["s3", "s4", "s1"]), "chrom": 0, "hap": rng.randint(0, 1), "first": hidx[0], "last": hidx[-1],
              "gap": None, "copies": rng.randint(1, 2)} for _ in range(rng.randint(1, 2))]
    return {"seed": rng.randrange(10 ** 6), "chroms": [{"name": "chr1", "sites": [{"kind": "snv", "len": 1} for _ in kinds]}],
            "samples": ["s1", "s2", "s3", "s4"], "truth": truth, "reads": reads, "errfree": False,
            "ped": [["s1", "s2", "s3"], ["s1", "s2", "s4"]],
            "opts": {"ped": True, "tag": rng.choice(["PS", "HP"]), "lists": {"read": rng.random() < 0.5, "gt": False, "recomb": True}}}


def nontrivial(sc, events):
    e = events[0]
    if e.get("ev") != "PhaseRun":
        return False
    l = e["lists"]
    return len(e["h1"]) >= 2 and (l["readreq"] or l["gtreq"] or l["recreq"])


def selftest_corrupt(events):
    for e in events:
        if e.get("ev") == "PhaseRun" and e["lists"]["read"]:
            e["lists"]["read"] = e["lists"]["read"][:-1]
            return events
    return events


MANIFEST = {
    "text": "PhaseRun.tla defines the expected content of the three reports from the solver instances of the WHOLE run (all chromosomes, "
            "all families) and from the input/output VCF difference: ReadListComplete (one line per read handed to the solver, phase set of "
            "its first variant, haplotype = partition entry), GtChangesExact (list = set of genotype differences; none without "
            "--distrust-genotypes), RecombInsideSet / RecombAllRuns. TLC judges recorded multi-chromosome, multi-family runs with every "
            "combination of the list options.",
    "note": "trusted: TLC, PhaseRun.tla, H1 hook, projection of the list files",
    "technique": "TLA+ relations evaluated by TLC on recorded multi-chromosome/multi-family runs (trace validation)",
}
