"""C20 - auxiliary reports cover the whole run and agree with the phased VCF."""
from .. import phaseprops as PP
from .. import phaseworld as PW

PROP = "C20"
TRACE_MODULE = PP.TRACE_MODULE
TASK_TIMEOUT = PP.TASK_TIMEOUT
drive = PP.drive
own_clause = PP.own_clause_for(PROP)
EXHAUSTIVE = False
RULE = ("worlds with 1-3 chromosomes x 1-2 families (unrelated samples, trio, quartet, trio + unrelated), every subset of "
        "--output-read-list / --changed-genotype-list / --recombination-list, with and without --distrust-genotypes (weak PL values and "
        "deliberately wrong genotypes so that changes happen) and --ped; true haplotypes of children carry recombinations; "
        "non-trivial = at least two chromosomes or two families processed and at least one list requested")
ASSUMPTIONS = [
    "expected list content is derived by TLC from the H1 hook records (reads, partition, components, transmission vector) and from the raw input/output VCF difference",
    "for the recombination list only 'inside one phase set', 'values as in the transmission vector' and 'every chromosome/family with an event is represented' are required, not the exact event rule",
]


def design_mc(ctx):
    return PP.design_mc_pipeline(ctx)


def signature(sc, events, clause):
    w = sc["world"]
    o = w.get("opts", {})
    return (f"chroms={'many' if len(w['chroms']) > 1 else 1} ped={'yes' if o.get('ped') else 'no'} distrust={bool(o.get('distrust'))}")


def scenarios(ctx):
    rng = ctx.rng
    scs = []
    for i in range(700 if ctx.quick else 15000):
        fam = rng.choice(["single", "two", "trio", "quartet", "trio+1"])
        ns = {"single": 1, "two": 2, "trio": 3, "quartet": 4, "trio+1": 4}[fam]
        ped = {"trio": [["s1", "s2", "s3"]], "quartet": [["s1", "s2", "s3"], ["s1", "s2", "s4"]], "trio+1": [["s1", "s2", "s3"]]}.get(fam, [])
        w = PW.rand_world(rng, nsamples=ns, nchroms=rng.choice([1, 2, 2, 3]), ped=ped, max_sites=rng.choice([4, 7]),
                          het_prob=0.8, depth=(1, 3), kinds=("snv", "snv", "ins", "del"))
        o = {"tag": rng.choice(["PS", "HP"]), "ped": bool(ped),
             "lists": {"read": rng.random() < 0.7, "gt": rng.random() < 0.7, "recomb": bool(ped) and rng.random() < 0.8}}
        if rng.random() < 0.45:
            o["distrust"] = True
            w["pl_weak"] = True
            w["errfree"] = False
            # a few deliberately wrong genotypes (truth says hom, VCF says het and vice versa)
            vg = {s: [[f"{min(x)}/{max(x)}" for x in w["truth"][s][ci]] for ci in range(len(w["chroms"]))] for s in w["samples"]}
            for s in w["samples"]:
                for ci in range(len(w["chroms"])):
                    for si in range(len(vg[s][ci])):
                        if rng.random() < 0.25:
                            vg[s][ci][si] = rng.choice(["0/1", "0/0", "1/1"])
            w["vcf_gt"] = vg
        w["opts"] = o
        scs.append({"world": w})
    return scs


def nontrivial(sc, events):
    e = events[0]
    if e.get("ev") != "PhaseRun":
        return False
    l = e["lists"]
    return len(e["h1"]) >= 2 and (l["readreq"] or l["gtreq"] or l["recreq"])


def selftest_corrupt(events):
    for e in events:
        if e.get("ev") == "PhaseRun" and e["lists"]["read"]:
            e["lists"]["read"] = e["lists"]["read"][:-1]
            return events
    return events


MANIFEST = {
    "text": "PhaseRun.tla defines the expected content of the three reports from the solver instances of the WHOLE run (all chromosomes, "
            "all families) and from the input/output VCF difference: ReadListComplete (one line per read handed to the solver, phase set of "
            "its first variant, haplotype = partition entry), GtChangesExact (list = set of genotype differences; none without "
            "--distrust-genotypes), RecombInsideSet / RecombAllRuns. TLC judges recorded multi-chromosome, multi-family runs with every "
            "combination of the list options.",
    "note": "trusted: TLC, PhaseRun.tla, H1 hook, projection of the list files",
    "technique": "TLA+ relations evaluated by TLC on recorded multi-chromosome/multi-family runs (trace validation)",
}
