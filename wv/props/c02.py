"""C02 - read-based phasing of error-free reads reproduces the true haplotypes."""
import random

from .. import phaseprops as PP
from .. import phaseworld as PW

PROP = "C02"
TRACE_MODULE = PP.TRACE_MODULE
TASK_TIMEOUT = PP.TASK_TIMEOUT
drive = PP.drive
own_clause = PP.own_clause_for(PROP)
signature = PP.signature
EXHAUSTIVE = False
RULE = ("a scenario is an abstract world (reference, well separated SNV/ins/del/MNP sites, true diploid haplotypes per sample, "
        "error-free reads incl. paired/gapped reads and depth above the cap) materialised as FASTA+VCF+BAM and run through "
        "`whatshap phase` with --tag PS/HP, --only-snvs, --sample subsets, small and default caps; worlds are TLC-enumerated (tiny) "
        "or seeded random; indel sites are unshiftable ones in random sequence or (a quarter of the random worlds plus a family of "
        "its own) the insertion/deletion of ONE unit of a tandem repeat of the reference (homopolymer runs up to 20, di-/trinucleotide "
        "repeats up to 20 bases, left-aligned) with a different depth on the two haplotypes; non-trivial = the output contains a phase set with >= 2 phased variants")
ASSUMPTIONS = [
    "reads are error-free by construction (wv/world.py asserts each read is a substring of its haplotype); sites are 40 bp apart, indels unshiftable",
    "only phased calls are compared with the truth (the statement does not say which variants must be phased)",
    "tandem-repeat indels are written at their normalised (left-aligned) position in the VCF and in the CIGARs of the reads, and a read "
    "that covers such a site reads through the whole repeat (a read ending inside the run is a copy of both haplotypes)",
]


def design_mc(ctx):
    return PP.design_mc_pipeline(ctx)


def scenarios(ctx):
    rng = ctx.rng
    scs = []
    n = 3000 if ctx.quick else 30000
    for i in range(n):
        ns = rng.choice([1, 1, 2, 3])
        w = PW.rand_world(rng, nsamples=ns, nchroms=rng.choice([1, 1, 2]), depth=rng.choice([(1, 2), (1, 3), (3, 9), (10, 25)]),
                          max_sites=rng.choice([4, 7, 9]))
        o = {"tag": rng.choice(["PS", "HP"]), "only_snvs": rng.random() < 0.2,
             "max_coverage": rng.choice([15, 15, 2, 3, 5])}
        if ns > 1 and rng.random() < 0.4:
            o["samples"] = rng.sample(w["samples"], rng.randint(1, ns - 1))
        if len(w["chroms"]) > 1 and rng.random() < 0.3:
            o["chromosomes"] = [rng.choice(w["chroms"])["name"]]
        # overlapping mate pairs whose first mate stops exactly on the anchor of an insertion the fragment carries
        for ci, ch in enumerate(w["chroms"]):
            for x, site in enumerate(ch["sites"]):
                if site["kind"] == "ins" and 0 < x < len(ch["sites"]) - 1 and rng.random() < 0.5:
                    for s_ in w["samples"]:
                        for hap in (0, 1):
                            if w["truth"][s_][ci][x][hap] == 1 and rng.random() < 0.7:
                                w["reads"].append({"sample": s_, "chrom": ci, "hap": hap, "first": rng.randint(0, x - 1), "last": rng.randint(x + 1, len(ch["sites"]) - 1),
                                                   "gap": None, "tight": x, "copies": rng.randint(1, 2)})
        if rng.random() < 0.3:
            for r_ in w["reads"]:              # spliced alignments: the gap of a fragment becomes a reference skip (N)
                if r_.get("gap") and rng.random() < 0.6:
                    r_["splice"] = True
        if rng.random() < 0.2:
            w["two_bams"] = True
        if rng.random() < 0.1:
            w, o = bridge_world(rng), {"tag": rng.choice(["PS", "HP"]), "max_coverage": rng.choice([1, 1, 2])}
        elif rng.random() < 0.08:
            w, o = cutlink_world(rng), {"tag": rng.choice(["PS", "HP"])}
        w["opts"] = o
        if rng.random() < 0.3:
            PW.add_decoys(rng, w)          # unusable alignments with arbitrary alleles, non-default --mapping-quality
        if rng.random() < 0.3:
            w["stale_phase"] = rng.choice(["PS", "HP"])    # the input VCF already carries unrelated phase statements
        if rng.random() < 0.3:
            w["gt_desc"] = True                            # unphased heterozygous genotypes written 1/0
        if rng.random() < 0.15:
            w["first_at_zero"] = True                      # the first site on the first base of its contig
        if rng.random() < 0.2:
            w["multi_before"] = [[ci_, si_] for ci_, ch_ in enumerate(w["chroms"]) for si_ in range(len(ch_["sites"])) if rng.random() < 0.4]
        if rng.random() < 0.2:
            w["phase_vcf"] = True                          # a phased VCF (true haplotypes, blocks) as an additional phase input
        if ns == 1 and rng.random() < 0.15 and not any(d_.get("decoy") == "foreignrg" for d_ in w.get("decoys", [])):
            o["ignore_rg"] = True          # --ignore-read-groups: read groups absent or naming somebody else
        if not any(r_.get("cut") for r_ in w["reads"]):
            rr = random.Random(w["seed"] + 41)             # own stream: the other decorations stay as they were
            if rr.random() < 0.25:
                repeat_sites(rr, w, 0.6)                   # some indel sites become +-1 unit of a tandem repeat
        scs.append({"world": w})
    for i in range(250 if ctx.quick else 2500):
        w = repeat_world(rng)
        w["opts"] = {"tag": rng.choice(["PS", "HP"]), "max_coverage": rng.choice([15, 15, 15, 5])}
        scs.append({"world": w})
    return scs


REPEAT_UNITS = ["A", "C", "G", "T", "CA", "TG", "AT", "GA", "TC", "CAG", "AAT", "GGC"]


def rand_repeat(rng):
    """a tandem repeat of 3..20 bases: homopolymer runs (often >= 10), dinucleotide repeats (often >= 7 units), a few trinucleotides"""
    unit = rng.choice(REPEAT_UNITS)
    lo = {1: 3, 2: 2, 3: 2}[len(unit)]
    hi = 20 // len(unit)
    n = rng.randint(lo, hi) if rng.random() < 0.3 else rng.randint(max(lo, (10 + 2 * len(unit)) // len(unit)), hi)
    return {"unit": unit, "n": n}


def repeat_sites(rng, w, p):
    for ch in w["chroms"]:
        for s_ in ch["sites"]:
            if s_["kind"] in ("ins", "del") and rng.random() < p:
                s_["rep"] = rand_repeat(rng)
                s_["len"] = len(s_["rep"]["unit"])


def repeat_world(rng):
    """One sample, 3-7 sites, SNVs mixed with heterozygous indels that add / remove ONE unit of a tandem repeat of the reference
    (left-aligned; reads carry the I/D at that place and read through the whole run), and a different depth on the two
    haplotypes (1-2 copies per read on one, 2-4 on the other; the thin haplotype is as often the one with the indel as not)."""
    n = rng.randint(3, 7)
    sites = [{"kind": "snv", "len": 1} for _ in range(n)]
    for i in rng.sample(range(n), rng.randint(1, max(1, n // 2))):
        sites[i] = {"kind": rng.choice(["ins", "del"]), "len": 1}
    w = {"seed": rng.randrange(10 ** 6), "chroms": [{"name": "chr1", "sites": sites}], "samples": ["s1"],
         "truth": {"s1": [[rng.choice([[0, 1], [1, 0]]) for _ in range(n)]]}, "reads": [], "errfree": True, "ped": []}
    repeat_sites(rng, w, 0.9)
    thin = rng.randint(0, 1)
    for hap in (0, 1):
        first = 0
        while True:                                   # a chain of overlapping reads over all sites, plus a few extra ones
            last = min(n - 1, first + rng.randint(1, 3))
            w["reads"].append({"sample": "s1", "chrom": 0, "hap": hap, "first": first, "last": last, "gap": None,
                               "copies": rng.randint(1, 2) if hap == thin else rng.randint(2, 4)})
            if last == n - 1:
                break
            first = rng.randint(max(first + 1, last - 1), last)
        for _ in range(rng.randint(0, 2)):
            a = rng.randint(0, n - 2)
            b = rng.randint(a + 1, min(n - 1, a + 3))
            gap = [a, b] if b - a >= 2 and rng.random() < 0.3 else None
            w["reads"].append({"sample": "s1", "chrom": 0, "hap": hap, "first": a, "last": b, "gap": gap, "copies": 1})
    rng.shuffle(w["reads"])
    return w


def cutlink_world(rng):
    """A heterozygous deletion (3 deleted bases) whose link to its left neighbour rests mainly on reads of the haplotype WITHOUT
    the deletion that end one or two bases inside the deleted stretch."""
    n = rng.randint(2, 4)
    d = rng.randint(1, n - 1)                      # index of the deletion site; sites left of it are SNVs
    sites = [{"kind": "snv", "len": 1} for _ in range(n)]
    sites[d] = {"kind": "del", "len": 3}
    truth = [rng.choice([[0, 1], [1, 0]]) for _ in range(n)]
    refhap = truth[d].index(0)
    reads = [{"sample": "s1", "chrom": 0, "hap": refhap, "first": rng.randint(0, d - 1), "last": d, "gap": None, "cut": rng.choice([1, 2]),
              "copies": rng.randint(2, 3)}]
    if rng.random() < 0.5:
        reads.append({"sample": "s1", "chrom": 0, "hap": 1 - refhap, "first": rng.randint(0, d - 1), "last": d, "gap": None, "copies": 1})
    for h in (0, 1):                               # the rest of the block, left of the deletion and right of it
        if d >= 2:
            reads.append({"sample": "s1", "chrom": 0, "hap": h, "first": 0, "last": d - 1, "gap": None, "copies": 1})
        if d < n - 1:
            reads.append({"sample": "s1", "chrom": 0, "hap": h, "first": d, "last": n - 1, "gap": None, "copies": 1})
    return {"seed": rng.randrange(10 ** 6), "chroms": [{"name": "chr1", "sites": sites}], "samples": ["s1"], "truth": {"s1": [truth]},
            "reads": reads, "errfree": True, "ped": []}


def bridge_world(rng):
    """Two groups of heterozygous SNVs, each covered far above the coverage cap by reads that stay inside the group, and
    one or two gapped fragments (mates in different groups) as the ONLY link between the groups: read selection often has
    to drop the link, and then the groups must not share a phase set."""
    nl, nr = rng.randint(3, 4), rng.randint(3, 4)
    n = nl + nr
    truth = [rng.choice([[0, 1], [1, 0]]) for _ in range(n)]
    reads = []
    for lo, hi in ((0, nl - 1), (nl, n - 1)):
        for hap in (0, 1):
            for _ in range(rng.randint(2, 4)):
                a = rng.randint(lo, hi - 1) if rng.random() < 0.3 else lo
                reads.append({"sample": "s1", "chrom": 0, "hap": hap, "first": a, "last": hi, "gap": None, "copies": rng.randint(2, 4)})
    for _ in range(rng.randint(1, 2)):
        a, b = rng.randint(0, nl - 1), rng.randint(nl, n - 1)
        # the link covers one site per group (poor selection score: many uncovered sites inside its insert)
        reads.append({"sample": "s1", "chrom": 0, "hap": rng.randint(0, 1), "first": a, "last": b, "gap": [a, b], "copies": 1})
    rng.shuffle(reads)
    return {"seed": rng.randrange(10 ** 6), "chroms": [{"name": "chr1", "sites": [{"kind": "snv", "len": 1} for _ in range(n)]}],
            "samples": ["s1"], "truth": {"s1": [truth]}, "reads": reads, "errfree": True, "ped": []}


def nontrivial(sc, events):
    e = events[0]
    if e.get("ev") != "PhaseRun":
        return False
    for s in e["out"]:
        for c in s:
            ps = [x["ps"] for x in c if x["ph"]]
            if any(ps.count(p) >= 2 for p in ps):
                return True
    return False


selftest_corrupt = PP.selftest_flip_one

MANIFEST = {
    "text": "PhasePipeline.tla models the stages of `whatshap phase` (Detect, Select, Solve, Components, Write) by their contracts; TLC "
            "checks exhaustively for tiny worlds that any maximal capped selection and any optimal solution of error-free reads yield "
            "the true haplotypes up to a flip per read-connected component. Whole runs of the real pipeline on materialised worlds "
            "(seeded random: indels/MNPs, indels of one unit inside tandem repeats with unequal haplotype depth, several samples and chromosomes, paired reads, depth above the cap, both tags, --only-snvs, "
            "--sample/--chromosome) are recorded through the H1 hook and the output VCF and judged by TLC (PhaseRun!TruthUpToFlip).",
    "note": "trusted: TLC, PhaseRun.tla, the materialiser wv/world.py (self-asserting) and projection; sampling beyond the tiny exhaustive space",
    "technique": "TLA+ pipeline spec model-checked with TLC + TLC trace validation of recorded whole-pipeline runs on materialised worlds",
}
