"""C18 - priority queue and component finder match their abstract models on all histories."""
import os

from .. import tlc

PROP = "C18"
TRACE_MODULE = "C18_Trace"
EXHAUSTIVE = True
RULE = ("a scenario is one operation history (a behaviour of the TLA+ heap / forest model emitted by TLC: every history up to "
        "a bounded length over small domains by breadth-first search, plus random-simulation behaviours over 7 items / 8 values) "
        "replayed call by call on one real PriorityQueue or ComponentFinder (scores handed over as int, tuple, list, iterator, generator or map object - every iterable yielding ints); non-trivial = a queue history with >= 2 pops "
        "and a change_score of a queued item, or a forest history with >= 2 merges")
ASSUMPTIONS = [
    "TLC; the abstract models PQueue.tla / UnionFind.tla are the reading of the statement (ties may pop in any order)",
    "duplicate push and change_score of an absent item are outside the modelled domain (undefined in the code, never done by read selection)",
    "histories longer than the BFS bound are sampled by TLC's random simulation, not enumerated",
]


def design_mc(ctx):
    q = ctx.quick
    out = []
    cfg = tlc.write_cfg(os.path.join(ctx.workdir, "pqref.cfg"), spec="MCSpec",
                        consts={"Items": "{1,2,3,4}" if q else "{1,2,3,4,5}", "Depth": 1000, "MaxLen": 4 if q else 5, "PopWeight": 1},
                        subst={"Scores": "S5"}, view="NoView", constraint="Bound",
                        invariants=["HeapOrder", "PosSync", "NoDupItem"], properties=["Refines"])
    r = tlc.model_check("MC_PQHeap", cfg=cfg)
    r["what"] = "PQHeap refines PQueue; heap order; positions map in sync"
    out.append(r)
    cfg = tlc.write_cfg(os.path.join(ctx.workdir, "ufref.cfg"), spec="MCSpec",
                        consts={"Values": "{1,2,3,4,5}" if q else "{1,2,3,4,5,6}", "Depth_": 1000},
                        view="NoView", constraint="Bound",
                        invariants=["ParentSmaller", "RootIsMin", "FindIsRep"], properties=["Refines"])
    r = tlc.model_check("MC_UFForest", cfg=cfg)
    r["what"] = "UFForest refines UnionFind; parent smaller (acyclic); root = minimum of tree"
    out.append(r)
    return out


def scenarios(ctx):
    q = ctx.quick
    scs = []
    seed = ctx.seed + 1
    # ---- priority queue: all histories (BFS) ----
    cfg = tlc.write_cfg(os.path.join(ctx.workdir, "pqbfs.cfg"), spec="MCSpec",
                        consts={"Items": "{1,2,3}", "Depth": 4 if q else 5, "MaxLen": 3, "PopWeight": 1},
                        subst={"Scores": "S3"}, constraint="Bound", invariants=["Emit"])
    hs, r = tlc.behaviours("MC_PQHeap", cfg)
    ctx.notes["pq_bfs_histories"] = len(hs)
    scs += [{"kind": "pq", "ops": h, "tuple": i % 2 == 1, "forms": i % 4 == 2} for i, h in enumerate(hs)]
    # ---- priority queue: random simulation over deep heaps ----
    for k, (items, depth, num) in enumerate([(7, 30, 300 if q else 3000), (5, 16, 300 if q else 3000)]):
        cfg = tlc.write_cfg(os.path.join(ctx.workdir, f"pqsim{k}.cfg"), spec="MCSpec",
                            consts={"Items": "{" + ",".join(map(str, range(1, items + 1))) + "}", "Depth": depth, "MaxLen": items, "PopWeight": 12},
                            subst={"Scores": "S6"}, constraint="Bound", invariants=["Emit"])
        hs, r = tlc.behaviours("MC_PQHeap", cfg, simulate=f"num={num}", depth=depth + 1, seed=seed + k)
        scs += [{"kind": "pq", "ops": h, "tuple": i % 3 == 1, "forms": i % 3 == 2} for i, h in enumerate(hs)]
        ctx.notes[f"pq_sim_histories_{items}items"] = len(hs)
    # ---- component finder: all histories (BFS) ----
    cfg = tlc.write_cfg(os.path.join(ctx.workdir, "ufbfs.cfg"), spec="MCSpec",
                        consts={"Values": "{1,2,3,4}", "Depth_": 3 if q else 4}, constraint="Bound", invariants=["Emit"])
    hs, r = tlc.behaviours("MC_UFForest", cfg)
    ctx.notes["uf_bfs_histories"] = len(hs)
    scs += [{"kind": "uf", "n": 4, "ops": h, "strings": i % 2 == 1} for i, h in enumerate(hs)]
    cfg = tlc.write_cfg(os.path.join(ctx.workdir, "ufsim.cfg"), spec="MCSpec",
                        consts={"Values": "{1,2,3,4,5,6,7,8}", "Depth_": 14}, constraint="Bound", invariants=["Emit"])
    hs, r = tlc.behaviours("MC_UFForest", cfg, simulate=f"num={400 if q else 4000}", depth=15, seed=seed + 7)
    ctx.notes["uf_sim_histories"] = len(hs)
    scs += [{"kind": "uf", "n": 8, "ops": h, "strings": i % 2 == 1} for i, h in enumerate(hs)]
    return scs


# ---------------------------------------------------------------------------------------------
def _norm(score):
    if score is None:
        return []
    if isinstance(score, int):
        return [score]
    return [int(x) for x in score]


def _drive_pq(sc):
    from whatshap.priorityqueue import PriorityQueue
    pq = PriorityQueue()
    universe = sorted({o["item"] for o in sc["ops"] if o["item"]} | {1})

    def obs(e):
        e["len"] = len(pq)
        e["empty"] = bool(pq.is_empty())
        e["look"] = [[i, _norm(pq.get_score_by_item(i))] for i in universe]
        return e

    cnt = [0]

    def arg(s):
        # scalar scores are given as plain ints unless the scenario asks for tuples throughout
        if sc.get("forms"):
            # the documented score type is "int, or an iterable object yielding ints": every kind of iterable, one-shot ones included
            cnt[0] += 1
            k = cnt[0] % 6
            if k == 0 and len(s) == 1:
                return s[0]
            if k == 1:
                return list(s)
            if k == 2:
                return iter(tuple(s))
            if k == 3:
                return (x for x in s)
            if k == 4:
                return map(int, s)
            return tuple(s)
        if len(s) == 1 and not sc.get("tuple"):
            return s[0]
        return tuple(s)

    evs = [obs({"ev": "PQNew"})]
    for o in sc["ops"]:
        if o["op"] == "push":
            pq.push(arg(o["score"]), o["item"])
            evs.append(obs({"ev": "Push", "item": o["item"], "score": o["score"]}))
        elif o["op"] == "change":
            pq.change_score(o["item"], arg(o["score"]))
            evs.append(obs({"ev": "Change", "item": o["item"], "score": o["score"]}))
        else:
            try:
                s, it = pq.pop()
                e = {"ev": "Pop", "item": int(it), "score": _norm(s), "exc": ""}
            except IndexError:
                e = {"ev": "Pop", "item": 0, "score": [], "exc": "IndexError"}
            evs.append(obs(e))
    # drain: the remaining items must come out in non-increasing order too
    for _ in range(len(pq) + 1):
        try:
            s, it = pq.pop()
            e = {"ev": "Pop", "item": int(it), "score": _norm(s), "exc": ""}
        except IndexError:
            e = {"ev": "Pop", "item": 0, "score": [], "exc": "IndexError"}
        evs.append(obs(e))
    return evs


def _drive_uf(sc):
    from whatshap.graph import ComponentFinder
    n = sc["n"]
    name = (lambda v: f"v{v:02d}") if sc.get("strings") else (lambda v: v)
    back = {name(v): v for v in range(1, n + 1)}
    cf = ComponentFinder([name(v) for v in range(1, n + 1)])
    evs = [{"ev": "UFNew", "values": list(range(1, n + 1))}]
    for o in sc["ops"]:
        if o["op"] == "merge":
            cf.merge(name(o["x"]), name(o["y"]))
            evs.append({"ev": "Merge", "x": o["x"], "y": o["y"], "exc": ""})
        else:
            evs.append({"ev": "Find", "x": o["x"], "res": back.get(cf.find(name(o["x"])), -1)})
    evs.append({"ev": "FindAll", "res": [[v, back.get(cf.find(name(v)), -1)] for v in range(1, n + 1)]})
    # a second pass after full compression
    evs.append({"ev": "FindAll", "res": [[v, back.get(cf.find(name(v)), -1)] for v in range(n, 0, -1)]})
    return evs


def drive(sc):
    return _drive_pq(sc) if sc["kind"] == "pq" else _drive_uf(sc)


def nontrivial(sc, events):
    if sc["kind"] == "pq":
        ops = [o["op"] for o in sc["ops"]]
        return ops.count("pop") >= 2 and "change" in ops
    return sum(1 for o in sc["ops"] if o["op"] == "merge") >= 2


def signature(sc, events, clause):
    return sc["kind"]


def selftest_corrupt(events):
    done = set()
    for e in events:
        if e["ev"] == "Pop" and e["exc"] == "" and e["len"] >= 1 and "pop" not in done:
            e["score"] = e["score"] + [9]
            done.add("pop")
        if e["ev"] == "FindAll" and "uf" not in done and any(x != r for x, r in e["res"]):
            for pr in e["res"]:
                if pr[0] != pr[1]:
                    pr[1] = pr[0]
                    break
            done.add("uf")
    return events


MANIFEST = {
    "text": "TLC model-checks that the implementation-shaped heap model (array + position map, sift up/down as in priorityqueue.pyx) "
            "refines the abstract queue and that the parent-forest model (smaller root wins, path compression as in graph.py) refines "
            "the abstract partition, exhaustively for 4-5 items x 5 scores / 5-6 values. TLC then emits every operation history up to "
            "length 4-5 (BFS) and thousands of random-simulation behaviours over 7 items / 8 values; each is replayed call by call on "
            "the real PriorityQueue / ComponentFinder built from the working tree and TLC validates every recorded call against the "
            "abstract model (pop returns a maximum with the last assigned score, len/is_empty/lookups match, find = minimum of the class).",
    "note": "trusted: TLC, PQueue.tla/UnionFind.tla as reading of the statement, the driver recording calls; long histories are sampled "
            "(TLC simulation), not enumerated",
    "technique": "TLA+ refinement checking with TLC + replay of TLC-generated behaviours into the real objects + TLC trace validation",
}
