"""C04 - the phased VCF is the input VCF plus phase information and nothing else."""
import os
import shutil

from .. import tlc
from .. import phaseworld as PW

PROP = "C04"
TRACE_MODULE = "C04_Trace"
TASK_TIMEOUT = 180
EXHAUSTIVE = False
RULE = ("phasing worlds (1-3 samples, 1-2 chromosomes) whose VCF is decorated with records the writer skips or must not touch: "
        "multi-ALT, symbolic <DEL>, duplicate positions, homozygous / missing / partially missing / haploid calls, pre-existing PS and HP "
        "phasing, extra FORMAT (GQ, DP, XX) and INFO values, FILTER entries, headers that define an INFO and a FORMAT field with the "
        "same ID (AD, GQ, DP, XX, PS, HP, PQ, HS, AC, AN, SVTYPE, SVLEN, END; FORMAT definitions that whatshap's header repair rewrites or "
        "supplies, INFO definitions it supplies) with records that use both; all --sample / --chromosome selections, both tags, "
        "--only-snvs, --distrust-genotypes; input and output are compared on the raw text of every column; non-trivial = the output "
        "phases at least one call and the input contains at least one decorated record")
ASSUMPTIONS = [
    "phase encoding = GT order/separator, PS, HP, PQ, HS of target samples on selected chromosomes (what the statement exempts)",
    "opaque values are interned strings compared for equality; the header is compared by the ids of its contig/INFO/FILTER/FORMAT lines",
    "INFO and FORMAT are separate namespaces: a definition is identified by (section, ID); made-up INFO values are not generated for END "
    "and for SVLEN on symbolic alleles (htslib derives the record length from them)",
]
PHASE_KEYS = ("GT", "PS", "HP", "PQ", "HS")
# IDs that the header defines BOTH as INFO and as FORMAT (separate namespaces in VCF; bcftools mpileup -a AD,INFO/AD, GATK, ...).
# fmt: FORMAT definitions to choose from (the first agrees with whatshap's table / is neutral, the others are the definitions of other
# tools that whatshap's header repair rewrites); pf / pi: whatshap can define the FORMAT / INFO itself, so the input may leave it
# undeclared; phase: a phase-encoding key (only declared here, its values come from the pre-existing-phasing decoration)
SHARED = {
    "AD": {"fmt": ["Number=.,Type=Integer", "Number=R,Type=Integer"], "info": "Number=R,Type=Integer", "pf": True},
    "GQ": {"fmt": ["Number=1,Type=Integer", "Number=1,Type=Float", "Number=.,Type=Integer"], "info": "Number=1,Type=Integer", "pf": True},
    "DP": {"fmt": ["Number=1,Type=Integer"], "info": "Number=1,Type=Integer"},
    "XX": {"fmt": ["Number=1,Type=String"], "info": "Number=1,Type=String"},
    "PS": {"fmt": ["Number=1,Type=Integer", "Number=.,Type=Integer"], "info": "Number=1,Type=Integer", "phase": True},
    "HP": {"fmt": ["Number=.,Type=String", "Number=1,Type=String"], "info": "Number=.,Type=String", "phase": True},
    "PQ": {"fmt": ["Number=1,Type=Float", "Number=1,Type=Integer"], "info": "Number=1,Type=Float", "phase": True},
    "HS": {"fmt": ["Number=.,Type=Integer", "Number=1,Type=Integer"], "info": "Number=.,Type=Integer", "phase": True},
    "AC": {"fmt": ["Number=A,Type=Integer"], "info": "Number=A,Type=Integer", "pi": True},
    "AN": {"fmt": ["Number=1,Type=Integer"], "info": "Number=1,Type=Integer", "pi": True},
    "SVTYPE": {"fmt": ["Number=1,Type=String"], "info": "Number=1,Type=String", "pi": True},
    "SVLEN": {"fmt": ["Number=.,Type=Integer"], "info": "Number=.,Type=Integer", "pi": True},
    "END": {"fmt": ["Number=1,Type=Integer"], "info": "Number=1,Type=Integer", "pi": True},
}


def _shared_value(rng, spec, nalt):
    """a value string that fits the definition 'Number=..,Type=..' on a record with nalt ALT alleles"""
    number, typ = [x.split("=")[1] for x in spec.split(",")]
    n = {"1": 1, "A": nalt, "R": nalt + 1, ".": nalt + 1}[number]
    if typ == "String":
        return rng.choice(["foo", "DEL", "bar_1"])
    return ",".join(str(rng.randint(0, 40)) for _ in range(n))


def design_mc(ctx):
    out = []
    combos = [("TRUE", "FALSE", "FALSE"), ("FALSE", "FALSE", "FALSE")] if ctx.quick else \
             [(t, d, o) for t in ("TRUE", "FALSE") for d in ("TRUE", "FALSE") for o in ("TRUE", "FALSE")]
    for tagps, distrust, onlysnv in combos:
        cfg = tlc.write_cfg(os.path.join(ctx.workdir, f"pw{tagps}{distrust}{onlysnv}.cfg"), spec="Spec",
                            consts={"NRec": 2, "Distrust": distrust, "OnlySnv": onlysnv, "TagPS": tagps},
                            invariants=["InvSameRecords", "InvUntouched", "InvAlleles", "InvOnlySupported"])
        r = tlc.model_check("PhaseWriter", cfg=cfg, timeout=3000)
        r["what"] = f"PhaseWriter (streaming writer model, TagPS={tagps}, distrust={distrust}, only_snvs={onlysnv}) satisfies the PhaseWrite clauses on every 2-record file"
        out.append(r)
    return out


def scenarios(ctx):
    rng = ctx.rng
    scs = []
    for i in range(1300 if ctx.quick else 15000):
        ns = rng.choice([1, 2, 3])
        w = PW.rand_world(rng, nsamples=ns, nchroms=rng.choice([1, 2]), max_sites=rng.choice([3, 5]), depth=(1, 2),
                          het_prob=0.7, kinds=("snv", "snv", "ins", "del"))
        w["errfree"] = False
        fmt = ["GT"]
        use_gq = rng.random() < 0.6
        use_xx = rng.random() < 0.5
        prephased = rng.choice([None, None, "PS", "HP"])
        if use_gq:
            fmt += ["GQ", "DP"]
        if use_xx:
            fmt.append("XX")
        if prephased:
            fmt.append(prephased)
        w["fmt_keys"] = ["GT", "GQ", "DP", "PL", "XX"] + ([prephased] if prephased else []) + (["PS"] if rng.random() < 0.1 and prephased != "PS" else [])
        w["site_fmt"] = fmt
        w["site_info"] = rng.choice([".", "AC=1", "NOTE=abc;FLAGGED", "AC=2;NOTE=x_y"])
        # decorated extra records between the sites
        extra = []
        for ci, ch in enumerate(w["chroms"]):
            n = len(ch["sites"])
            for si in range(n):
                if rng.random() < 0.5:
                    kind = rng.choice(["multi", "symbolic", "dup", "homsnv", "weirdgt", "hetsnv_nopath", "multi_before", "symbolic_before", "symnoend"])
                    at_site = kind in ("dup", "multi_before", "symbolic_before")
                    pos0 = PW.SP * (si + 1) + (0 if at_site else rng.choice([14, 20, 26]))
                    # *_before: an unsupported record at the SAME position as a phasable site, listed in front of it
                    order = -(len(extra) + 1) if kind.endswith("_before") else len(extra) + 1
                    extra.append({"chrom": ci, "pos0": pos0, "kind": kind, "order": order})
        w["decor"] = extra
        w["prephased"] = prephased
        o = {"tag": rng.choice(["PS", "HP"]), "only_snvs": rng.random() < 0.2, "max_coverage": rng.choice([15, 3])}
        if rng.random() < 0.2:
            o["reference"] = False
        if ns > 1 and rng.random() < 0.5:
            o["samples"] = rng.sample(w["samples"], rng.randint(1, ns - 1))
        if len(w["chroms"]) > 1 and rng.random() < 0.4:
            o["chromosomes"] = [rng.choice(w["chroms"])["name"]]
        if rng.random() < 0.2:
            o["distrust"] = True
            w["pl_weak"] = True
        if rng.random() < 0.3:
            # VCF on standard output together with the auxiliary list files: nothing but the VCF may appear there
            o["to_stdout"] = True
            o["lists"] = {"read": rng.random() < 0.8, "gt": bool(o.get("distrust")), "recomb": False}
        if rng.random() < 0.25:
            w["nocontig"] = rng.choice(["none", "first"])
        if rng.random() < 0.15:
            w["undeclared_info"] = True
        if rng.random() < 0.4:
            # the header defines an INFO and a FORMAT field with the SAME ID and the records use both
            sh = []
            for x in rng.sample(sorted(SHARED), rng.choice([1, 1, 2, 3])):
                t = SHARED[x]
                sh.append({"id": x, "fdef": rng.randrange(len(t["fmt"])),
                           "fmt_declared": not (t.get("pf") and rng.random() < 0.25),
                           "info_declared": not (t.get("pi") and rng.random() < 0.5)})
            w["shared_ids"] = sh
        w["opts"] = o
        w["decor_seed"] = rng.randrange(10 ** 6)
        scs.append({"world": w})
    return scs


def _decorate(wd, d, paths):
    """rewrite in.vcf: add FORMAT/INFO decorations to the site records and insert the extra records"""
    import random
    from .. import world as W
    rng = random.Random(wd["decor_seed"])
    header, samples, recs = W.read_vcf_text(paths["vcf"])
    names = paths["names"]
    fmt = wd["site_fmt"]
    out = []
    for r in recs:
        calls = []
        for c in r["calls"]:
            vals = []
            for k in fmt:
                if k == "GT":
                    g = c["GT"]
                    if wd.get("prephased") == "PS" and g in ("0/1",) and rng.random() < 0.6:
                        g = rng.choice(["0|1", "1|0"])
                    vals.append(g)
                elif k == "GQ":
                    vals.append(str(rng.randint(1, 99)))
                elif k == "DP":
                    vals.append(rng.choice([".", "12", "7"]))
                elif k == "XX":
                    vals.append(rng.choice(["foo", "bar_1", "."]))
                elif k == "PL":
                    vals.append(c.get("PL", "0,10,10"))
                elif k == "PS":
                    vals.append(str(rng.choice([5, 77])) if "|" in vals[0] else ".")
                elif k == "HP":
                    vals.append(rng.choice(["9-1,9-2", "9-2,9-1"]) if c["GT"] == "0/1" and rng.random() < 0.6 else ".")
            calls.append(vals)
        f2 = list(fmt) + (["PL"] if "PL" in r["fmt"] and "PL" not in fmt else [])
        if "PL" in f2 and "PL" not in fmt:
            for c, vals in zip(r["calls"], calls):
                vals.append(c.get("PL", "."))
        out.append({"chrom": r["chrom"], "pos": r["pos"], "id": rng.choice([".", "rs1"]), "ref": r["ref"], "alt": r["alt"],
                    "qual": rng.choice([".", "30", "12.5"]), "filter": rng.choice([".", "PASS", "LowQual"]), "info": wd["site_info"],
                    "fmt": f2, "calls": calls, "_k": (names.index(r["chrom"]), r["pos"], 0)})
    seqs = paths["seqs"]
    for x in wd["decor"]:
        ref = seqs[x["chrom"]][0]
        p0 = x["pos0"]
        b = ref[p0]
        other = [c for c in "ACGT" if c != b]
        k = x["kind"].replace("_before", "")
        gts = {"multi": ["1/2", "0/1", "0/2", "2/2"], "symbolic": ["0/1", "1/1", "0/0"], "symnoend": ["0/1", "1/1", "0/0"], "dup": ["0/1", "0/0", "1/1"],
               "homsnv": ["0/0", "1/1"], "weirdgt": ["./.", "0/.", "./1", "./."], "hetsnv_nopath": ["0/1"]}[k]
        alt = {"multi": other[0] + "," + other[1], "symbolic": "<DEL>", "symnoend": rng.choice(["<DEL>", "<INS>", "<DUP>"])}.get(k, other[0])
        info = "SVTYPE=DEL;END=%d" % (p0 + 5) if k == "symbolic" else "."
        if k == "symnoend":
            # a symbolic allele WITHOUT an END value (END is optional)
            info = rng.choice([".", "SVTYPE=DEL"])
        calls = [[rng.choice(gts)] for _ in samples]
        dfmt = ["GT"]
        pre = wd.get("prephased")
        if pre and rng.random() < 0.6:
            # the unsupported record arrives PHASED (another tool, an earlier run): the run must not leave it marked phased
            dfmt = ["GT", pre]
            for c in calls:
                als = c[0].split("/")
                if len(als) == 2 and "." not in als and rng.random() < 0.7:
                    if pre == "PS":
                        if rng.random() < 0.5:
                            als.reverse()
                        c[0] = "|".join(als)
                        c.append(str(rng.choice([5, 77, p0 + 1])))
                    else:
                        c.append(rng.choice(["9-1,9-2", "9-2,9-1"]))
                else:
                    c.append(".")
        out.append({"chrom": names[x["chrom"]], "pos": p0 + 1, "ref": b, "alt": alt, "info": info, "fmt": dfmt, "calls": calls,
                    "_k": (x["chrom"], p0 + 1, x["order"])})
    out.sort(key=lambda r: r["_k"])
    contigs = [(n, len(s[0])) for n, s in zip(names, seqs)]
    if wd.get("nocontig") == "none":
        contigs = []                      # ##contig lines are optional in VCF
    elif wd.get("nocontig") == "first":
        contigs = contigs[:1]             # only some contigs declared
    ikeys = ("AC", "NOTE", "FLAGGED")
    if wd.get("undeclared_info"):
        # AC / AN used in the records but NOT declared in the header (whatshap repairs such headers): nothing may be lost
        ikeys = ("NOTE", "FLAGGED")
        for r_ in out:
            if r_.get("info", ".") in (".", "") or "AC=" in r_.get("info", ""):
                r_["info"] = "AC=1;AN=2"
    fkeys = list(wd["fmt_keys"])
    ikeys = list(ikeys)
    extra = {"SVTYPE": '##INFO=<ID=SVTYPE,Number=1,Type=String,Description="sv type">',
             "END": '##INFO=<ID=END,Number=1,Type=Integer,Description="end">'}
    lines = []
    rng2 = random.Random(wd["decor_seed"] + 1)
    for x in wd.get("shared_ids", ()):
        # one ID in both namespaces: the FORMAT definition may be one that whatshap rewrites or may be left to whatshap,
        # the INFO definition may be left to whatshap where it can supply it; the records use both fields
        k, t = x["id"], SHARED[x["id"]]
        fdef = t["fmt"][x["fdef"]]
        if k in fkeys:
            fkeys.remove(k)
        if k in ikeys:
            ikeys.remove(k)
        extra.pop(k, None)
        if x["fmt_declared"]:
            lines.append('##FORMAT=<ID=%s,%s,Description="per-sample %s">' % (k, fdef, k))
        if x["info_declared"]:
            lines.append('##INFO=<ID=%s,%s,Description="site-level %s">' % (k, t["info"], k))
        for r_ in out:
            nalt = len(r_["alt"].split(","))
            if not t.get("phase") and k not in r_["fmt"] and rng2.random() < 0.8:
                r_["fmt"] = list(r_["fmt"]) + [k]
                for c in r_["calls"]:
                    c.append(_shared_value(rng2, fdef, nalt) if rng2.random() < 0.9 else ".")
            # INFO/END and, on symbolic alleles, INFO/SVLEN are not opaque (htslib derives the record length from them and pysam
            # keeps END in sync with it): no made-up values for these
            if k != "END" and not (k == "SVLEN" and "<" in r_["alt"]) and (k + "=") not in r_.get("info", ".") and rng2.random() < 0.8:
                v = k + "=" + _shared_value(rng2, t["info"], nalt)
                r_["info"] = v if r_.get("info", ".") in (".", "") else r_["info"] + ";" + v
    W.write_vcf(paths["vcf"], samples, contigs, out, fmt_keys=tuple(fkeys), info_keys=tuple(ikeys),
                extra_header=tuple(extra.values()) + ('##ALT=<ID=DEL,Description="Deletion">',) + tuple(lines))


class Interner:
    def __init__(self):
        self.t = {}

    def __call__(self, s):
        return self.t.setdefault(s, len(self.t) + 1)


def _defs(header, it):
    out = set()
    for l in header:
        for key in ("##contig=<ID=", "##INFO=<ID=", "##FILTER=<ID=", "##FORMAT=<ID="):
            if l.startswith(key):
                out.add(it(key[2:6] + ":" + l[len(key):].split(",")[0].rstrip(">")))
    return sorted(out)


def _file(path, it, names, onlysnv=False):
    from .. import world as W
    header, samples, recs = W.read_vcf_text(path)
    out = []
    prev = None
    for r in recs:
        alts = r["alt"].split(",")
        keys = [k for k in r["fmt"] if k not in PHASE_KEYS]
        calls = []
        for c, rawc in zip(r["calls"], r["calls"]):
            # htslib writes a missing string value that whatshap set to None as "" or as a NUL byte: both mean "missing"
            c = {k: ("." if v.replace("\x00", "") == "" else v) for k, v in c.items()}
            g = c.get("GT", ".")
            als, phased = PW.parse_gt(g)
            ps = c.get("PS", ".")
            hp = c.get("HP", ".")
            rest = ":".join(f"{k}={c.get(k, '.')}" for k in keys)
            raw = ":".join(f"{k}={c.get(k, '.')}" for k in r["fmt"] if c.get(k, ".") != "." or k == "GT")
            calls.append({"gt": als, "phased": phased, "ps": int(ps) if ps.lstrip("-").isdigit() else -1,
                          "hp": it("hp:" + hp) if hp not in (".", "") else -1, "rest": it(rest), "raw": it(raw)})
        key = (r["chrom"], r["pos"])
        out.append({"chrom": it("chr:" + r["chrom"]), "pos": r["pos"],
                    "fixed": it("|".join([r["id"], r["ref"], r["alt"], r["qual"], r["filter"], r["info"]])),
                    "nalt": len(alts), "symbolic": any(a.startswith("<") or "[" in a or "]" in a for a in alts),
                    "snv": len(r["ref"]) == 1 and all(len(a) == 1 for a in alts), "dup": key == prev,
                    "keys": [it("k:" + k) for k in keys], "calls": calls})
        # duplicate = an earlier record of a type the reader supports under the run's options sits at this position
        if len(alts) == 1 and (not onlysnv or (len(r["ref"]) == 1 and len(alts[0]) == 1)):
            prev = key
    return {"defs": _defs(header, it), "samples": [it("s:" + s) for s in samples], "recs": out}


def _fixed_diff(pin, pout):
    """classes of differences in the fixed columns (for the signature of SameRecords): the one recorded class is
    'a symbolic ALT allele without END: INFO gains END=<POS+len(REF)-1>' (pysam's VariantFile.write syncs END)"""
    from .. import world as W
    ri, ro = W.read_vcf_text(pin)[2], W.read_vcf_text(pout)[2]
    if len(ri) != len(ro):
        return ["other"]
    out = set()
    for a, b in zip(ri, ro):
        ka = [a[k] for k in ("chrom", "pos", "id", "ref", "alt", "qual", "filter")]
        kb = [b[k] for k in ("chrom", "pos", "id", "ref", "alt", "qual", "filter")]
        if ka == kb and a["info"] == b["info"]:
            continue
        sym = any(x.startswith("<") for x in a["alt"].split(","))
        items = [] if a["info"] in (".", "") else a["info"].split(";")
        want = items + ["END=%d" % (a["pos"] + len(a["ref"]) - 1)]
        if ka == kb and sym and not any(x.startswith("END=") for x in items) and b["info"].split(";") == want:
            out.add("symbolic-ALT-without-END:END-added")
        else:
            out.add("other")
    return sorted(out)


def drive(sc):
    wd = sc["world"]
    d = PW.workdir()
    try:
        paths = PW.materialise(wd, d)
        _decorate(wd, d, paths)
        exc, h1, lp = PW.run_phase(wd, d, paths)
        it = Interner()
        o = wd.get("opts", {})
        ev = {"ev": "PhaseWrite", "exc": exc, "distrust": bool(o.get("distrust")), "onlysnv": bool(o.get("only_snvs")),
              "tag": o.get("tag", "PS"), "fin": _file(paths["vcf"], it, paths["names"], bool(o.get("only_snvs"))),
              "fout": _file(os.path.join(d, "out.vcf"), it, paths["names"], bool(o.get("only_snvs"))) if exc == "" else {"defs": [], "samples": [], "recs": []}}
        ev["infodiff"] = _fixed_diff(paths["vcf"], os.path.join(d, "out.vcf")) if exc == "" else []
        ev["targets"] = [i + 1 for i, s in enumerate(wd["samples"]) if s in (o.get("samples") or wd["samples"])]
        ev["csel"] = [it("chr:" + c) for c in (o.get("chromosomes") or paths["names"])]
        return [ev]
    finally:
        shutil.rmtree(d, ignore_errors=True)


def nontrivial(sc, events):
    e = events[0]
    if e.get("ev") != "PhaseWrite" or e["exc"]:
        return False
    phased = any(c["phased"] or c["hp"] != -1 for r in e["fout"]["recs"] for c in r["calls"])
    return phased and bool(sc["world"]["decor"])


def signature(sc, events, clause):
    w = sc["world"]
    o = w["opts"]
    if clause == "SameRecords" and events and events[0].get("infodiff") == ["symbolic-ALT-without-END:END-added"]:
        return "fixed columns differ only by: symbolic-ALT-without-END:END-added"
    return f"tag={o.get('tag')} prephased={w.get('prephased')} distrust={bool(o.get('distrust'))} subset={'yes' if o.get('samples') or o.get('chromosomes') else 'no'}"


def selftest_corrupt(events):
    for e in events:
        if e["ev"] == "PhaseWrite" and e["fout"]["recs"]:
            e["fout"]["recs"][0]["fixed"] = 99999
            return events
    return events


MANIFEST = {
    "text": "PhaseWrite.tla states the property as a relation between abstract input and output files; PhaseWriter.tla is an "
            "implementation-shaped model of the streaming writer (remove old phasing of targets, skip unsupported records, write phase) "
            "that TLC checks against the relation for every 2-record file x target set x phasing result. Real `whatshap phase` runs on "
            "decorated VCFs (multi-ALT, symbolic, duplicate positions, missing/partial/haploid genotypes, pre-existing PS/HP phasing, extra "
            "INFO/FORMAT/FILTER values, INFO and FORMAT fields sharing one ID, sample/chromosome selections, both tags, --only-snvs, --distrust-genotypes) are projected from the "
            "raw text of both files and judged by TLC.",
    "note": "trusted: TLC, PhaseWrite.tla, the text projection in wv/props/c04.py",
    "technique": "TLA+ relation + TLC model checking of the writer design + TLC trace validation of raw input/output file pairs",
}
