"""X04 - growth of the specification: the sqrt(N) column store of the two column-wise dynamic programs
(PedigreeDPTable, GenotypeDPTable).  Hook H2: WHATSHAP_VERIF_DPTRACE (src/veriftrace.h, commit c25295c) logs one
line per store event (begin / compute / bcompute / fcompute / read / free / end).  ColumnStore.tla holds the contract
and an implementation-shaped transcription of both schedules; X04_Trace.tla validates every logged event against
the contract.  Not a registered property (C01 and C08 judge the RESULTS of the same tables)."""
import os

from .. import tlc

PROP = "X04"
TRACE_MODULE = "X04_Trace"
EXHAUSTIVE = True
TASK_TIMEOUT = 300
NPROC = 8
SHARDS = 8
RULE = ("one construction of a real PedigreeDPTable or GenotypeDPTable on a chain-shaped read set with N variant columns "
        "(every N from 1 to the tier's bound, plus larger square / off-square N; reads of 2-4 adjacent columns, random "
        "alleles and weights, single individual and trio, with or without an explicit position list that adds read-free "
        "columns) with the store hook on; every logged event is one trace line.  The event sequence of each run is also "
        "compared with the sequence the transcribed schedule of ColumnStore.tla produces for that N (emitted by TLC); the "
        "number of equal schedules is reported, a different but contract-abiding schedule is not a violation.  Non-trivial = "
        "a run with N >= 4 (k >= 2: columns are freed and recomputed)")
ASSUMPTIONS = [
    "the hook lines are written by the same thread that changes the store, immediately before the change (free) or at the "
    "start of the computation that ends with the store (compute), so their order is the order of the store operations",
    "domain: N >= 2 columns (whatshap only hands reads with at least two variants to the tables; GenotypeDPTable asserts on a "
    "single column)",
    "Bound(N) = N div k + 2k + 1 with k = floor(sqrt N) is the contract's space bound (the transcription peaks at about "
    "N div k + 2(k - 1)); a schedule needing more is reported even if results are right",
]


def _maxn(ctx):
    return 48 if ctx.quick else 150


def design_mc(ctx):
    out = []
    for variant, expect in (("code", True), ("badstart", False), ("nofree", False), ("keepall", False)):
        cfg = tlc.write_cfg(os.path.join(ctx.workdir, f"ck_{variant}.cfg"), spec="Spec",
                            consts={"MaxN": 40 if ctx.quick else 90, "Variant": f'"{variant}"'},
                            invariants=["Preconditions", "SpaceBound", "TimeBound", "Complete"], properties=["Terminates"])
        r = tlc.model_check("MC_ColumnStore", cfg=cfg, workers=8)
        if expect:
            r["what"] = "ColumnStore: both transcribed schedules obey the contract (preconditions, space, time, completeness) and terminate"
            out.append(r)
        else:
            if r["ok"]:
                raise tlc.TlcError(f"negative control Variant={variant} was NOT rejected by the contract")
            ctx.notes[f"negative_control_{variant}"] = "violated as expected"
    return out


def scenarios(ctx):
    rng = ctx.rng
    maxn = _maxn(ctx)
    cfg = tlc.write_cfg(os.path.join(ctx.workdir, "ck_emit.cfg"), spec="Spec",
                        consts={"MaxN": maxn, "Variant": '"code"'}, invariants=["Emit"])
    hs, _ = tlc.behaviours("MC_ColumnStore", cfg)
    model = {(h["tbl"], h["n"]): [[o[0], o[1]] for o in h["ops"]] for h in hs}
    ctx.notes["model_schedules_emitted"] = len(model)
    scs = []
    big = [64, 81, 99, 100, 101, 120, 121, 143, 144, 145, 169, 200] if ctx.quick else [169, 170, 195, 196, 197, 225, 256, 257, 300, 400, 401]
    for tbl in ("P", "G"):
        for n in list(range(2, maxn + 1)) + big:     # every read covers >= 2 variants (as in the CLI): N >= 2
            for rep in range(1 if (ctx.quick or n > 60) else 2):
                ped = "trio" if (n <= 12 and rng.random() < 0.3) else "single"
                extra = rng.random() < 0.3        # explicit position list with read-free columns
                scs.append({"tbl": tbl, "n": n, "ped": ped, "extra": extra, "span": rng.choice([2, 2, 3, 4]),
                            "seed": rng.randrange(1 << 30), "model": model.get((tbl, n))})
    return scs


_STATE = {}


def _hook_file():
    """The hook opens its file once per process: choose it before the first table is built and follow it by offset."""
    if "path" not in _STATE:
        root = os.path.join(os.environ.get("WV_SCRATCH", "/var/tmp/whverif"), "work")
        os.makedirs(root, exist_ok=True)
        path = os.path.join(root, f"dptrace-{os.getpid()}.txt")
        open(path, "w").close()
        os.environ["WHATSHAP_VERIF_DPTRACE"] = path
        _STATE["path"] = path
        _STATE["off"] = 0
    return _STATE["path"]


def _new_lines():
    with open(_STATE["path"]) as fh:
        fh.seek(_STATE["off"])
        txt = fh.read()
        _STATE["off"] = fh.tell()
    if _STATE["off"] > 50_000_000:      # keep the per-process file small
        pass
    return [l.split() for l in txt.splitlines() if l.strip()]


def drive(sc):
    import random
    _hook_file()
    from whatshap.core import (ReadSet, Read, PedigreeDPTable, GenotypeDPTable, Pedigree, NumericSampleIds, Genotype,
                               PhredGenotypeLikelihoods)
    rng = random.Random(sc["seed"])
    n, tbl = sc["n"], sc["tbl"]
    # columns: n positions; with `extra` some of them carry no read (only possible through the position list)
    positions = [10 * (i + 1) for i in range(n)]
    covered = list(positions)
    if sc["extra"] and n >= 3:
        drop = set(rng.sample(range(1, n - 1), max(1, (n - 2) // 5)))
        covered = [p for i, p in enumerate(positions) if i not in drop]
    nind = 3 if sc["ped"] == "trio" else 1
    rs = ReadSet()
    span = sc["span"]
    rid = 0
    i = 0
    while i < len(covered) - 1:
        cols = covered[i:i + span]
        if len(cols) < 2:
            break
        r = Read(f"r{rid}", 50, 0, rng.randrange(nind))
        for p in cols:
            r.add_variant(p, rng.randrange(2), rng.randrange(1, 30))
        rs.add(r)
        rid += 1
        i += max(1, span - 1)
    if len(covered) == 1 or rid == 0:
        # a single column needs a read with one variant; the tables accept it through the position list
        r = Read("solo", 50, 0, 0)
        r.add_variant(covered[0], 1, 10)
        if len(covered) > 1:
            r.add_variant(covered[1], 0, 10)
        rs.add(r)
    rs.sort()
    ids = NumericSampleIds()
    ped = Pedigree(ids)
    names = ["s0", "s1", "s2"][:nind]
    for nm in names:
        if tbl == "P":
            ped.add_individual(nm, [Genotype([0, 1])] * n, [None] * n)
        else:
            ped.add_individual(nm, [Genotype([])] * n, [PhredGenotypeLikelihoods([1 / 3.0, 1 / 3.0, 1 / 3.0])] * n)
    if nind == 3:
        ped.add_relationship("s0", "s1", "s2")
    # sample ids of the reads must be the pedigree's numeric ids
    idmap = [ids[nm] for nm in names]
    rs2 = ReadSet()
    for r in rs:
        q = Read(r.name, r.mapqs[0], 0, idmap[r.sample_id])
        for v in r:
            q.add_variant(v.position, v.allele, v.quality)
        rs2.add(q)
    rs2.sort()
    _new_lines()                                       # discard anything older
    exc = ""
    try:
        if tbl == "P":
            t = PedigreeDPTable(rs2, [1] * n, ped, False, positions)
            t.get_optimal_cost()
        else:
            t = GenotypeDPTable(ids, rs2, [1] * n, ped, positions)
            t.get_genotype_likelihoods(names[0], 0)
        del t
    except Exception as e:          # noqa: BLE001 - an exception of the table is an observation
        exc = type(e).__name__
    lines = _new_lines()
    events, ops = [], []
    for f in lines:
        if len(f) != 4:
            continue
        ev = {"ev": f[1], "tbl": f[0], "col": int(f[2]), "n": int(f[3])}
        events.append(ev)
        if f[1] not in ("begin", "end"):
            ops.append([f[1], int(f[2])])
    logged = bool(lines) and lines[0][1] == "begin" and lines[-1][1] == "end" and all(int(f[3]) == n and f[0] == tbl for f in lines)
    events.append({"ev": "Result", "tbl": tbl, "col": 0, "n": n, "logged": logged, "exc": exc,
                   "same": (ops == sc["model"]) if sc.get("model") is not None else -1})
    return events


def post(ctx, scs, per_tid):
    same = sum(1 for evs in per_tid.values() for e in evs if e["ev"] == "Result" and e.get("same") is True)
    diff = sum(1 for evs in per_tid.values() for e in evs if e["ev"] == "Result" and e.get("same") is False)
    ctx.notes["schedule_equals_transcription"] = same
    ctx.notes["schedule_differs_from_transcription"] = diff
    ctx.notes["store_events"] = sum(len(evs) - 1 for evs in per_tid.values())
    return []


def nontrivial(sc, events):
    return sc["n"] >= 4 and any(e["ev"] == "free" for e in events)


def signature(sc, events, clause):
    return f"{sc['tbl']}:n={sc['n']}"


def selftest_corrupt(events):
    # move one recomputation's "read" in front of it: a read of a column that is not stored
    for k, e in enumerate(events):
        if e["ev"] == "free" and e["n"] >= 9:
            for m in range(k + 1, len(events)):
                if events[m]["ev"] == "read" and events[m]["col"] == e["col"] and events[m]["tid"] == e["tid"]:
                    # drop the compute events between the free and the read of that column
                    drop = [x for x in range(k + 1, m) if events[x]["ev"] in ("compute", "bcompute") and events[x]["col"] == e["col"]]
                    if drop:
                        del events[drop[0]]
                        return events
    return events


MANIFEST = {
    "text": "ColumnStore.tla states the contract of the sqrt(N) column store of both DP tables (a column is computed only next to "
            "a stored neighbour and never over a stored one, read only while stored, the backtrace / forward pass reads every "
            "column once in order, at most N div k + 2k + 1 columns are alive, none is computed more than twice) and transcribes "
            "both schedules action by action; TLC checks the transcription against the contract for every N up to the bound "
            "(with three defective variants as negative controls) and validates every store event the real tables log.",
    "note": "not registered (spec growth); the results of the same tables are judged by C01 and C08.",
    "technique": "TLA+ contract + implementation-shaped state machine model-checked by TLC + TLC trace validation of hook events "
                 "recorded from the real C++ tables; the model's schedules are replayed against the recorded ones",
}
