"""C08 - genotyping reports the exact posterior of its HMM; GT, GL and GQ agree."""
import json
import math
import os
import re
import shutil
import tempfile
from decimal import Decimal, getcontext

from .. import tlc

PROP = "C08"
TRACE_MODULE = "C08_Trace"
EXHAUSTIVE = True
NPROC = 8
SHARDS = 8
TASK_TIMEOUT = 300

getcontext().prec = 60


# =============================================================================================
# (a) posterior: TLC's state graph of GenoHMM + a generic sum-product
# =============================================================================================
def sum_product(edges):
    """Generic sum-product over a weighted DAG.  edges: iterable of (src, dst, weight, tags) with
    hashable nodes and tags.  Every node without predecessor is a source (weight 1), every node
    without successor a sink (weight 1).  Returns (Z, {tag: sum over edges carrying the tag of
    alpha(src) * weight * beta(dst)}), Z = total weight of all source-sink paths."""
    edges = list(edges)
    out, indeg, nodes = {}, {}, []
    for e in edges:
        for n in (e[0], e[1]):
            if n not in indeg:
                indeg[n] = 0
                out[n] = []
                nodes.append(n)
    for e in edges:
        out[e[0]].append(e)
        indeg[e[1]] += 1
    deg = dict(indeg)
    order = [n for n in nodes if deg[n] == 0]
    alpha = {n: Decimal(1) for n in order}
    i = 0
    while i < len(order):
        n = order[i]
        i += 1
        for (_, d, w, _t) in out[n]:
            alpha[d] = alpha.get(d, Decimal(0)) + alpha[n] * w
            deg[d] -= 1
            if deg[d] == 0:
                order.append(d)
    if len(order) != len(nodes):
        raise ValueError("state graph is not acyclic")
    beta = {}
    for n in reversed(order):
        beta[n] = Decimal(1) if not out[n] else sum((w * beta[d] for (_, d, w, _t) in out[n]), Decimal(0))
    z = sum((alpha[n] for n in nodes if not out[n]), Decimal(0))
    mass = {}
    for (s, d, w, tags) in edges:
        if tags:
            f = alpha[s] * w * beta[d]
            for tg in tags:
                mass[tg] = mass.get(tg, Decimal(0)) + f
    return z, mass


def phred_prob(q):
    """10^(-q/10) to 60 digits; the code's special case: quality 0 -> 0.9999"""
    if q == 0:
        return Decimal("0.9999")
    return Decimal(10) ** (Decimal(-q) / Decimal(10))


def _dpow(b, e):
    return Decimal(1) if e == 0 else b ** e


def label_weight(lab, nums):
    """Substitute numbers into a symbolic edge label of GenoHMM.  nums: qual[read-1][cell index],
    cellcol[read-1] = list of columns, prior[i-1][col-1] = triple, rc[col-1]."""
    k = lab["kind"]
    if k in ("carry", "start"):
        return Decimal(1)
    if k == "rec":
        r = Decimal(10) ** (Decimal(-nums["rc"][lab["col"] - 1]) / Decimal(10))
        n = lab["n"]
        term = lambda x: _dpow(r, x) * _dpow(1 - r, n - x)
        norm = sum((cnt * term(x) for x, cnt in enumerate(lab["row"])), Decimal(0))
        return term(lab["x"]) / norm
    if k == "assign":
        col = lab["col"]

        def pr(gv):
            p = Decimal(1)
            for i, g in enumerate(gv):
                p *= Decimal(nums["prior"][i][col - 1][g])
            return p
        norm = sum((pr(gv) for gv in lab["norm"]), Decimal(0))
        return pr(lab["gv"]) / lab["mult"] / norm
    if k == "emit":
        w = Decimal(1)
        for f in lab["factors"]:
            r = f["read"] - 1
            q = nums["qual"][r][nums["cellcol"][r].index(f["col"])]
            p = phred_prob(q)
            w *= (1 - p) if f["match"] else p
        return w
    raise ValueError("unknown label " + k)


def label_tags(lab):
    if lab["kind"] == "assign":
        return [(i + 1, lab["col"], g) for i, g in enumerate(lab["tags"])]
    return ()


def hmm_posterior(graph, shape, nums):
    """posterior[(i, col)] = [P(g=0), P(g=1), P(g=2)] as Decimals, from TLC's edge list"""
    nums = dict(nums, cellcol=[[c[0] for c in r["cells"]] for r in shape["reads"]])
    es = [(json.dumps(e["src"]), json.dumps(e["dst"]), label_weight(e["lab"], nums), label_tags(e["lab"])) for e in graph]
    z, mass = sum_product(es)
    return {(i, c): [mass.get((i, c, g), Decimal(0)) / z for g in range(3)]
            for i in range(1, shape["nInd"] + 1) for c in range(1, shape["m"] + 1)}, z


_RE_EDGE = re.compile(r'^<<"EDGE", "(.*)">>\s*$', re.M)


def extract_graphs(shapes, workdir, tag="g", timeout=1500):
    """One TLC run of MC_GenoHMM (PrintEdges = TRUE) over a batch of shapes; returns one edge list per shape.
    Checks that TLC printed every generated (state, successor) pair exactly once."""
    os.makedirs(workdir, exist_ok=True)
    sf = os.path.join(workdir, f"shapes-{tag}.ndjson")
    with open(sf, "w") as fh:
        for s in shapes:
            fh.write(json.dumps(s, separators=(",", ":")) + "\n")
    cfg = tlc.write_cfg(os.path.join(workdir, f"graph-{tag}.cfg"), spec="Spec", consts={"PrintEdges": "TRUE"},
                        subst={"Shapes": "JsonShapes"})
    r = tlc.model_check("MC_GenoHMM", cfg=cfg, workers=1, timeout=timeout, env={"SHAPE_FILE": sf}, xmx="4g")
    if not r["ok"]:
        raise tlc.TlcError("graph extraction failed:\n" + r["out"][-3000:])
    per = [[] for _ in shapes]
    n = 0
    for m in _RE_EDGE.finditer(r["out"]):
        e = json.loads(m.group(1).replace('\\"', '"').replace("\\\\", "\\"))
        per[e["src"][0] - 1].append(e)
        n += 1
    if n != r["transitions"] - r["init"] or r["init"] != len(shapes):
        raise tlc.TlcError(f"edge print count {n} != generated {r['transitions']} - initial {r['init']}")
    return per, r


def _save_graph(path, edges):
    with open(path, "w") as fh:
        json.dump(edges, fh, separators=(",", ":"))


def _load_graph(sc):
    p = sc.get("graph")
    if p and os.path.exists(p):
        with open(p) as fh:
            return json.load(fh)
    # replay of a stored scenario: let TLC regenerate the graph of this one shape
    d = tempfile.mkdtemp(dir=_scratch())
    try:
        per, _ = extract_graphs([sc["shape"]], d)
        return per[0]
    finally:
        shutil.rmtree(d, ignore_errors=True)


def _scratch():
    d = os.path.join(os.environ.get("WV_SCRATCH", "/var/tmp/whverif"), "work")
    os.makedirs(d, exist_ok=True)
    return d


# ---------------------------------------------------------------------------------------------
# shapes and numbers
def rand_shape(rng, kind, m, nreads):
    if kind == "single":
        nind, trios = 1, []
    elif kind == "unrelated":
        nind, trios = 2, []
    elif kind == "trio":
        nind, trios = 3, [rng.choice([[1, 2, 3], [1, 2, 3], [3, 2, 1], [2, 3, 1]])]
    else:
        nind, trios = 4, [[1, 2, 3], [1, 2, 4]]
    reads = []
    for _ in range(nreads):
        first = rng.randint(1, m - 1)
        last = rng.randint(first + 1, m)
        cols = [first] + [c for c in range(first + 1, last) if rng.random() < 0.6] + [last]
        reads.append({"ind": rng.randint(1, nind), "cells": [[c, rng.randint(0, 1)] for c in cols]})
    reads.sort(key=lambda r: r["cells"][0][0])
    return {"nInd": nind, "trios": trios, "m": m, "reads": reads}


def gap_shape(rng, kind):
    base = rand_shape(rng, kind, 4, 0)
    reads = []
    for lo, hi in ((1, 2), (3, 4)):
        for _ in range(rng.randint(2, 3)):
            reads.append({"ind": rng.randint(1, base["nInd"]), "cells": [[lo, rng.randint(0, 1)], [hi, rng.randint(0, 1)]]})
    reads.sort(key=lambda r: r["cells"][0][0])
    return dict(base, reads=reads)


def cov_shape(rng, m, nreads):
    """high coverage with blanks: one individual, every one of the 9-12 reads is active in one inner column t (so the
    column's read list has nreads entries and its bipartitions run through Gray-code bits >= 8), some reads span t without
    covering it (BLANK entry: mate gap / undetermined allele), and at least one BLANK entry stands in front of a covering
    read whose index in the column is >= 8.  Other columns get whatever coverage the random extents give."""
    t = rng.randint(2, m - 1)
    while True:
        reads = []
        for _ in range(nreads):
            first = rng.randint(1, t)
            last = rng.randint(t, m)
            if first == last:
                first, last = (first - 1, last) if (first > 1 and rng.random() < 0.5) or last == m else (first, last + 1)
            cols = [first] + [c for c in range(first + 1, last) if rng.random() < (0.65 if c == t else 0.5)] + [last]
            reads.append({"ind": 1, "cells": [[c, rng.randint(0, 1)] for c in cols]})
        reads.sort(key=lambda r: r["cells"][0][0])
        blank = [all(c[0] != t for c in r["cells"]) for r in reads]
        if any(blank[j] and not blank[x] for x in range(8, nreads) for j in range(x)):
            return {"nInd": 1, "trios": [], "m": m, "reads": reads}


def max_coverage(s):
    return max([sum(1 for r in s["reads"] if r["cells"][0][0] <= c <= r["cells"][-1][0]) for c in range(1, s["m"] + 1)] or [0])


def blank_in_deep_column(s):
    """some column has >= 9 active reads and a BLANK entry in front of a covering read at index >= 8"""
    for c in range(1, s["m"] + 1):
        act = [r for r in s["reads"] if r["cells"][0][0] <= c <= r["cells"][-1][0]]
        blank = [all(x[0] != c for x in r["cells"]) for r in act]
        if any(blank[j] and not blank[x] for x in range(8, len(act)) for j in range(x)):
            return True
    return False


QUALS = [0, 1, 2, 5, 10, 10, 20, 20, 30, 40, 60, 93, 255, 256, 300]
PRIOR_ATOMS = [1, 1, 2, 3, 5, 10, 0.5, 0.1, 0.01, 1e-6]
RCS = [0, 1, 3, 10, 10, 40, 100]


def rand_numbers(rng, shape, style):
    """One numeric instance of a shape: qualities per cell, prior triple per (individual, column),
    recombination cost per column."""
    m, n = shape["m"], shape["nInd"]
    qual = [[rng.choice(QUALS) if style != "uniform" else 10 for _ in r["cells"]] for r in shape["reads"]]
    prior = []
    for i in range(n):
        row = []
        for c in range(m):
            if style == "uniform":
                t = [1 / 3, 1 / 3, 1 / 3]
            else:
                t = [float(rng.choice(PRIOR_ATOMS)) for _ in range(3)]
                if style == "normalised":
                    s = sum(t)
                    t = [x / s for x in t]
                if style == "zero" and n == 1 and rng.random() < 0.5:
                    t[rng.randrange(3)] = 0.0
            row.append(t)
        prior.append(row)
    rc = [rng.choice(RCS) for _ in range(m)]
    return {"qual": qual, "prior": prior, "rc": rc}


def run_core(shape, nums):
    """the real GenotypeDPTable on one numeric instance: {(i, col): [L0, L1, L2]} (floats)"""
    from whatshap.core import (ReadSet, Read, Pedigree, NumericSampleIds, GenotypeDPTable, Genotype,
                               PhredGenotypeLikelihoods)
    ids = NumericSampleIds()
    ped = Pedigree(ids)
    m = shape["m"]
    for i in range(shape["nInd"]):
        ped.add_individual(f"ind{i+1}", [Genotype([]) for _ in range(m)],
                           [PhredGenotypeLikelihoods([float(x) for x in t]) for t in nums["prior"][i]])
    for f, mo, c in shape["trios"]:
        ped.add_relationship(f"ind{f}", f"ind{mo}", f"ind{c}")
    rs = ReadSet()
    for k, rd in enumerate(shape["reads"]):
        x = Read(f"r{k}", 50, 0, ids[f"ind{rd['ind']}"])
        for (c, a), q in zip(rd["cells"], nums["qual"][k]):
            x.add_variant(c * 10, a, q)
        rs.add(x)
    dp = GenotypeDPTable(ids, rs, list(nums["rc"]), ped, [c * 10 for c in range(1, m + 1)])
    gts = [Genotype([0, 0]), Genotype([0, 1]), Genotype([1, 1])]
    out = {}
    for i in range(shape["nInd"]):
        for c in range(m):
            l = dp.get_genotype_likelihoods(f"ind{i+1}", c)
            out[(i + 1, c + 1)] = [float(l[g]) for g in gts]
    return out


POST_TOL = 1000        # 1e-9 relative, in units of 1e-12
ERR_CAP = 2 * 10 ** 9


def _posterior_event(shape, graph, nums):
    ref, _z = hmm_posterior(graph, shape, nums)
    got = run_core(shape, nums)
    entries = []
    for (i, c), triple in sorted(ref.items()):
        for g in range(3):
            r = triple[g]
            v = got[(i, c)][g]
            if math.isnan(v) or math.isinf(v):
                err = ERR_CAP
            else:
                d = abs(Decimal(v) - r)
                rel = d / r if r != 0 else d
                err = int(min(Decimal(ERR_CAP), (rel * Decimal(10) ** 12).to_integral_value(rounding="ROUND_CEILING")))
            entries.append({"i": i, "c": c, "g": g, "ok": err <= POST_TOL, "err": err})
    return {"ev": "Posterior", "nInd": shape["nInd"], "m": shape["m"], "nreads": len(shape["reads"]),
            "maxcov": max_coverage(shape), "deepblank": blank_in_deep_column(shape), "nedges": len(graph), "tol": POST_TOL, "entries": entries}


# =============================================================================================
# (b) decision rule: direct calls and whole `whatshap genotype` runs
# =============================================================================================
def _determine_events(sc):
    from whatshap.cli.genotype import determine_genotype
    from whatshap.core import PhredGenotypeLikelihoods
    g = sc["G"]
    evs = []
    for x, y, z, thr in sc["pairs"]:
        res = determine_genotype(PhredGenotypeLikelihoods([x / g, y / g, z / g]), thr / g)
        gt = -1 if res.is_none() else int(sum(res.as_vector()))
        evs.append({"ev": "Determine", "G": g, "x": x, "y": y, "z": z, "thr": thr, "gt": gt})
    return evs


QS = [0, 0, 0, 1, 2, 3, 6, 10, 13, 20, 30, 50]


def rand_cli(rng, idx):
    ns = rng.choice([1, 1, 2, 3, 3, 3])
    trio = ns == 3 and rng.random() < 0.6
    nop = rng.random() < 0.4
    sc = {"kind": "cli", "seed": rng.randrange(10 ** 9), "nsamples": ns, "trio": trio, "q": rng.choice(QS),
          "nopriors": nop, "constant": 0.0 if nop or rng.random() < 0.6 else rng.choice([0.01, 0.1, 1.0]),
          "prioroutput": (not nop) and rng.random() < 0.6,
          "nchrom": rng.choice([1, 1, 2]), "nvars": rng.randint(1, 6), "nreads": rng.choice([1, 2, 4, 6, 10, 20]),
          "err": rng.choice([0.0, 0.0, 0.05, 0.2]), "maxcov": rng.choice([15, 15, 6, 3]),
          "multiallelic": rng.random() < 0.25, "recombrate": rng.choice([1.26, 1.26, 100.0, 1e6])}
    sc["empty_sample"] = ns >= 2 and rng.random() < 0.2      # the last sample has no reads at all
    sc["select_chrom"] = sc["nchrom"] == 2 and rng.random() < 0.5
    sc["select_sample"] = ns >= 2 and not trio and rng.random() < 0.4
    return sc


def deep_cli(rng):
    """deep, clean, high-quality coverage of linked heterozygous SNVs: other-genotype masses of 1e-15 .. 1e-40"""
    return {"kind": "cli", "deep": True, "seed": rng.randrange(10 ** 9), "nsamples": rng.choice([1, 1, 2]), "trio": False,
            "q": rng.choice([0, 0, 10, 30]), "nopriors": rng.random() < 0.5, "constant": 0.0, "prioroutput": rng.random() < 0.3,
            "nchrom": 1, "nvars": rng.randint(2, 4), "nreads": 0, "perhap": rng.randint(3, 8), "bq": rng.randint(35, 45),
            "err": 0.0, "maxcov": 15, "multiallelic": False, "recombrate": 1.26, "empty_sample": False,
            "select_chrom": False, "select_sample": False}


def writer_sc(rng):
    """likelihood triples given directly to GenotypeVcfWriter.write_genotypes: other masses 1e-3 .. 1e-300, also exact 0"""
    trip = []
    for _ in range(24):
        k1, k2 = rng.choice([3, 8, 14, 15, 16, 17, 20, 30, 40, 100, 300]), rng.choice([5, 16, 17, 25, 60, 200, 320])
        m1, m2 = rng.choice([1.0, 2.5, 7.0]) * 10.0 ** -k1, rng.choice([1.0, 3.0]) * 10.0 ** -k2
        if rng.random() < 0.15:
            m2 = 0.0
        if rng.random() < 0.1:
            m1 = m2 = 0.0
        t = [m1, m2]
        t.insert(rng.randrange(3), None)
        trip.append(t)
    return {"kind": "writer", "triples": trip}


def _writer_events(sc):
    """GenotypeVcfWriter.write_genotypes on a table whose likelihoods are set by the driver; GT by the real determine_genotype"""
    from .. import world
    from whatshap.vcf import VcfReader, GenotypeVcfWriter
    from whatshap.core import PhredGenotypeLikelihoods
    from whatshap.cli.genotype import determine_genotype
    d = tempfile.mkdtemp(dir=_scratch(), prefix="c08w-")
    try:
        n = len(sc["triples"])
        recs = [{"chrom": "chr1", "pos": 10 + 5 * j, "id": ".", "ref": "A", "alt": "C", "qual": ".", "filter": ".", "info": ".",
                 "fmt": ["GT"], "calls": [["0/1"]]} for j in range(n)]
        world.write_vcf(os.path.join(d, "in.vcf"), ["A"], [("chr1", 1000)], recs)
        gls = []
        for t in sc["triples"]:
            rest = sum(x for x in t if x is not None)
            gls.append(PhredGenotypeLikelihoods([1.0 - rest if x is None else x for x in t]))
        with VcfReader(os.path.join(d, "in.vcf"), genotype_likelihoods=False, ignore_genotypes=True) as rd:
            tables = list(rd)
        table = tables[0]
        table.set_genotype_likelihoods_of("A", gls)
        table.set_genotypes_of("A", [determine_genotype(g, 0.0) for g in gls])
        with open(os.path.join(d, "out.vcf"), "w") as fh:
            with GenotypeVcfWriter(command_line=None, in_path=os.path.join(d, "in.vcf"), out_file=fh) as w:
                w.write_genotypes("chr1", table, False)
        _, _, out_recs = world.read_vcf_text(os.path.join(d, "out.vcf"))
        return [_call_event(r["calls"][0], 0, "writer") for r in out_recs]
    finally:
        shutil.rmtree(d, ignore_errors=True)


def _gt_code(s):
    s = s.strip()
    if s in (".", "./."):
        return -1
    if "/" in s:
        al = s.split("/")
        if len(al) == 2 and all(a in ("0", "1") for a in al):
            return int(al[0]) + int(al[1])
    return -2


def _gl_halfwidth(x):
    """half width of the set of reals that are written as this GL text: 6 significant digits (%g) of a 32-bit float"""
    if x == 0:
        return Decimal("1e-12")
    mag = math.floor(math.log10(abs(x)))
    return Decimal(5) * Decimal(10) ** (mag - 6) + Decimal(abs(x)) * Decimal(2) ** -24


def _call_event(call, q, which):
    e = {"ev": "Call", "file": which, "q": q, "L": [], "gt": _gt_code(call.get("GT", "?")), "gq": -2, "mp": 0,
         "mp_lo": 0, "mp_hi": 0, "masszero": False}
    gq = call.get("GQ", "?")
    if gq == ".":
        e["gq"] = -1
    elif re.fullmatch(r"\d+", gq):
        e["gq"] = min(int(gq), 2 * 10 ** 9)
    try:
        gl = [float(x) for x in call.get("GL", "").split(",")]
    except ValueError:
        gl = []
    if len(gl) == 3 and all(x <= 0.001 for x in gl):
        probs = [Decimal(0) if x <= -1000 else Decimal(10) ** Decimal(repr(x)) for x in gl]
        e["L"] = [int((p * 10 ** 6).to_integral_value(rounding="ROUND_HALF_EVEN")) for p in probs]
        if e["gt"] in (0, 1, 2):
            # the other mass in the log domain, from the written GLs themselves (never 1 - max)
            others = [x for i, x in enumerate(gl) if i != e["gt"] and x > -1000]
            if not others:
                e["masszero"] = True
            else:
                def mphred(shift):
                    m = sum((Decimal(10) ** (Decimal(repr(x)) + shift * _gl_halfwidth(x)) for x in others), Decimal(0))
                    return Decimal(-10000) * m.log10()
                e["mp"] = int(mphred(0).to_integral_value(rounding="ROUND_HALF_EVEN"))
                e["mp_lo"] = int(mphred(1).to_integral_value(rounding="ROUND_FLOOR"))
                e["mp_hi"] = int(mphred(-1).to_integral_value(rounding="ROUND_CEILING"))
    return e


def _cli_events(sc):
    import logging
    import random
    from .. import world
    from whatshap.cli.genotype import run_genotype
    rng = random.Random(sc["seed"])
    d = tempfile.mkdtemp(dir=_scratch(), prefix="c08-")
    try:
        length = 240
        chroms = [f"chr{i+1}" for i in range(sc["nchrom"])]
        ref = {c: world.random_reference(rng, length) for c in chroms}
        samples = ["A", "B", "C"][:sc["nsamples"]]
        recs, variants = [], {}
        for ch in chroms:
            ps = sorted(rng.sample(range(12, length - 12, 6), sc["nvars"]))
            variants[ch] = [world.make_variant(rng, ref[ch], p, "snv") for p in ps]
            for j, v in enumerate(variants[ch]):
                alt = v.alt
                if sc["multiallelic"] and j == 0:
                    alt = v.alt + "," + rng.choice([b for b in "ACGT" if b not in (v.ref, v.alt)])
                recs.append({"chrom": ch, "pos": v.pos + 1, "id": f"v{v.pos}", "ref": v.ref, "alt": alt,
                             "qual": rng.choice(["30", ".", "7.5"]), "filter": rng.choice(["PASS", ".", "LowQual"]),
                             "info": rng.choice([".", "NOTE=x", "AC=1;FLAGGED"]), "fmt": ["GT", "DP", "GQ"],
                             "calls": [[rng.choice(["0/1", "1|0", "./.", "1/1"]), str(rng.randint(1, 30)), "9"] for _ in samples]})
        world.write_vcf(os.path.join(d, "in.vcf"), samples, [(c, length) for c in chroms], recs)
        reads, n = [], 0
        haps = {}
        for ci, ch in enumerate(chroms):
            for s in samples:
                if sc["trio"] and s == "C":
                    hp = [haps[(ch, "A")][rng.randint(0, 1)], haps[(ch, "B")][rng.randint(0, 1)]]
                else:
                    hp = [[rng.randint(0, 1) for _ in variants[ch]] for _ in range(2)]
                haps[(ch, s)] = hp
                if sc.get("deep"):
                    hp = [[1] * len(variants[ch]), [0] * len(variants[ch])]
                    for j in range(len(variants[ch])):
                        if rng.random() < 0.3:
                            hp[0][j], hp[1][j] = 0, 1
                    haps[(ch, s)] = hp
                    first, last = variants[ch][0].pos, variants[ch][-1].pos
                    for h in (0, 1):
                        hap = world.Haplotype(ref[ch], variants[ch], hp[h])
                        for _ in range(sc["perhap"]):
                            pos0, cig, seq = hap.read(rng.randint(0, first), rng.randint(last + 1, length))
                            reads.append({"name": f"r{n}", "ref": ci, "pos": pos0, "cigar": world.cigar_str(cig), "seq": seq,
                                          "qual": chr(33 + sc["bq"]) * len(seq), "rg": s, "mapq": 60})
                            n += 1
                for _ in range(0 if sc["empty_sample"] and s == samples[-1] else sc["nreads"]):
                    h = rng.randint(0, 1)
                    al = [a if rng.random() >= sc["err"] else 1 - a for a in hp[h]]
                    hap = world.Haplotype(ref[ch], variants[ch], al)
                    a = rng.randint(0, length - 40)
                    b = min(length, a + rng.randint(30, 200))
                    pos0, cig, seq = hap.read(a, b)
                    qual = "".join(chr(33 + rng.choice([2, 10, 20, 30, 40])) for _ in seq)
                    reads.append({"name": f"r{n}", "ref": ci, "pos": pos0, "cigar": world.cigar_str(cig), "seq": seq,
                                  "qual": qual, "rg": s, "mapq": 60})
                    n += 1
        world.write_bam(os.path.join(d, "in.bam"), [(c, length) for c in chroms], reads,
                        read_groups=[{"ID": s, "SM": s} for s in samples])
        kw = {}
        if sc["trio"]:
            kw["ped"] = world.write_ped(os.path.join(d, "t.ped"), [("A", "B", "C")])
            kw["recombrate"] = sc["recombrate"]
        sel_chroms = [chroms[-1]] if sc["select_chrom"] else chroms
        sel_samples = [samples[-1]] if sc["select_sample"] else samples
        if sc["select_chrom"]:
            kw["chromosomes"] = sel_chroms
        if sc["select_sample"]:
            kw["samples"] = sel_samples
        outs = [("main", os.path.join(d, "out.vcf"))]
        if sc["prioroutput"]:
            kw["prioroutput"] = os.path.join(d, "prior.vcf")
            outs.append(("prior", kw["prioroutput"]))
        logging.disable(logging.CRITICAL)
        exc = ""
        try:
            run_genotype([os.path.join(d, "in.bam")], os.path.join(d, "in.vcf"), output=outs[0][1],
                         gt_qual_threshold=sc["q"], nopriors=sc["nopriors"], constant=sc["constant"],
                         max_coverage=sc["maxcov"], write_command_line_header=False, **kw)
        except Exception as e:  # the property promises an output for every input of the domain
            exc = type(e).__name__ + ": " + str(e)[:200]
        finally:
            logging.disable(logging.NOTSET)
        evs = []
        intern = {}

        def iid(s):
            return intern.setdefault(s, len(intern) + 1)

        _, in_samples, in_recs = world.read_vcf_text(os.path.join(d, "in.vcf"))

        def ident(r):
            return iid("|".join([r["chrom"], str(r["pos"]), r["id"], r["ref"], r["alt"], r["filter"], r["info"]]))

        def whole(r):
            return iid(json.dumps([r["chrom"], r["pos"], r["id"], r["ref"], r["alt"], r["qual"], r["filter"], r["info"],
                                   r["fmt"], r["calls"]], sort_keys=True))
        for which, path in outs:
            e = {"ev": "Run", "file": which, "exc": exc, "in_records": [ident(r) for r in in_recs],
                 "in_samples": [iid("S:" + s) for s in in_samples],
                 "in_unselected": [whole(r) for r in in_recs if r["chrom"] not in sel_chroms],
                 "out_records": [], "out_samples": [], "out_unselected": []}
            calls = []
            if not exc:
                _, out_samples, out_recs = world.read_vcf_text(path)
                e["out_records"] = [ident(r) for r in out_recs]
                e["out_samples"] = [iid("S:" + s) for s in out_samples]
                e["out_unselected"] = [whole(r) for r in out_recs if r["chrom"] not in sel_chroms]
                for r in out_recs:
                    if r["chrom"] not in sel_chroms or "," in r["alt"] or r["alt"] == ".":
                        continue
                    for s, call in zip(out_samples, r["calls"]):
                        if s in sel_samples:
                            calls.append(_call_event(call, sc["q"], which))
            evs.append(e)
            evs.extend(calls)
        return evs
    finally:
        shutil.rmtree(d, ignore_errors=True)


# =============================================================================================
# module contract
# =============================================================================================
RULE = ("three scenario kinds. (hmm) one instance SHAPE of the genotyping HMM - TLC-enumerated tiny shapes (Gen_C08Shapes: every "
        "sorted sequence of <= 2 reads over 3 columns for one individual / over 2 columns for a trio) plus seeded random shapes "
        "(single <= 5 reads x <= 12 columns, unrelated pair, trio in three member orders <= 4 columns, quartet; blanks, uncovered "
        "columns, nested reads; and high-coverage shapes: one individual, 3-4 columns, 9-11 (thorough: 9-12) reads that are all active "
        "in one inner column, some of them spanning it without covering it - BLANK entries of gapped / paired reads - with at least "
        "one BLANK entry in front of a covering read at index >= 8 of the column, so that the column has 512-4096 bipartitions) "
        "- for which TLC prints the state graph of GenoHMM; each of 4-20 random numeric draws (qualities incl. "
        "0 and >= 256, priors normalised/unnormalised/with a zero, recombination costs 0-100) is run through the real GenotypeDPTable "
        "and compared with the sum-product over TLC's graph; non-trivial = >= 2 reads share a column. (determine) a batch of "
        "TLC-enumerated (likelihood triple, threshold) pairs on the grid 1/20 (thorough: 1/40) given to the real determine_genotype. (cli) one seeded "
        "world (1-3 samples, optional trio PED, 1-2 chromosomes, 1-6 SNVs, 0-20 reads per sample with errors) run through "
        "`whatshap genotype` in-process with a phred threshold from {0,1,2,3,6,10,13,20,30,50}, priors / --no-priors / --constant, "
        "chromosome and sample selection, prior output; plus deep clean worlds (3-8 error-free reads per haplotype at base quality 35-45 over "
        "2-4 linked heterozygous SNVs: other-genotype masses 1e-15..1e-40, GQ 150-400); non-trivial = the outputs contain both a called "
        "and an uncalled genotype, or a call whose other mass is below 1e-15. (writer) 24 extreme likelihood triples (other masses "
        "1e-3..1e-320 and exact 0) set on a VariantTable and written by GenotypeVcfWriter.write_genotypes directly")
ASSUMPTIONS = [
    "TLC explores GenoHMM's state graph completely and prints every (state, successor) pair once (checked: printed edges = generated states - initial states)",
    "the posterior clause is decided by TLC's graph + a generic 40-line sum-product in 60-digit decimal arithmetic in the driver (TLC has no reals); TLC judges the logged scaled deviation",
    "domain of GenotypeDPTable: reads sorted, every read has >= 2 cells (the backward column iterator asserts first < last column), priors not all zero",
    "coverage above 5 reads per column is sampled for a single individual only (3 high-coverage shapes x 3 numeric draws in the quick tier, 24 x 6 in the thorough tier); the state graph of a trio at that coverage is too large to print",
    "the trio/quartet labelling of PedMEC.tla (shared with C01); depth-1 pedigrees",
    "GL is read back from the file with 6 significant digits: calls are judged up to 3 ppm, GQ up to the rounding boundary this can move",
    "a missing GT is accepted as '.' or './.'",
]


def design_mc(ctx):
    q = ctx.quick
    out = []
    cfg = tlc.write_cfg(os.path.join(ctx.workdir, "mc_hmm.cfg"), spec="Spec", consts={"PrintEdges": "FALSE"},
                        subst={"Shapes": "MCShapes"},
                        invariants=["TypeOK", "BipOnActiveReads", "NoDeadEnd", "RowIsBinomial", "MultPartition",
                                    "TablesAreDefinitions", "EmitCoversColumn"],
                        properties=["SidesAreCarried", "SidesKeptInsideColumn", "TablesConstant"])
    r = tlc.model_check("MC_GenoHMM", cfg=cfg, workers=8, timeout=1500)
    r["what"] = ("GenoHMM state graph of 5 shapes (single with blank/uncovered column, unrelated pair, trio in two orders, quartet): "
                 "no dead end, sides carried across shared reads, binomial rows, multiplicities partition the assignments")
    out.append(r)
    cfg = tlc.write_cfg(os.path.join(ctx.workdir, "mc_call.cfg"), spec="Spec",
                        consts={"G": 20 if q else 40, "N": 5 if q else 6, "MaxEps": 2, "MaxMp": 60000 if q else 200000, "MpStep": 50},
                        invariants=["CallIsUnique", "NoCallIffMaxLeThrOrTie", "CallIsArgMax", "ThresholdMonotone", "DefaultCallsAll",
                                    "GridIsDistribution", "CallWithinIsBoxImage", "ExactIsZeroBox", "TableOK", "GQRounds",
                                    "GQMonotone", "GQRangeOK"])
    r = tlc.model_check("MC_GenoCall", cfg=cfg, workers=8, timeout=1500)
    r["what"] = ("GenoCall on every grid triple x threshold: call unique, no call iff max <= threshold or tie, threshold monotone, "
                 "tolerant reading = image of the eps-box, GQ = nearest phred, monotone, capped")
    out.append(r)
    return out


def _tlc_write(module, consts, outfile, timeout=1200):
    cfgdir = os.path.dirname(outfile)
    cfg = tlc.write_cfg(os.path.join(cfgdir, module + ".gen.cfg"), consts=consts)
    rc, out, _ = tlc._java(["-config", cfg, "-workers", "1", "-metadir", tlc._metadir(), "-noGenerateSpecTE", module + ".tla"],
                           env_extra={"OUT_FILE": outfile}, timeout=timeout, serial=True, xmx="4g")
    if rc != 0:
        raise tlc.TlcError(module + " failed:\n" + out[-2000:])
    with open(outfile) as fh:
        return [json.loads(x) for x in fh if x.strip()]


def _shape_cost(s):
    t = 4 ** len(s["trios"])
    a = 2 ** (2 * (s["nInd"] - len(s["trios"])))
    return s["m"] * t * a * (t + 2) * 2 ** max(min(len(s["reads"]), 4), max_coverage(s))


def scenarios(ctx):
    from concurrent.futures import ThreadPoolExecutor
    q = ctx.quick
    rng = ctx.rng
    scs = []
    # ---- (determine) TLC-enumerated (triple, threshold) pairs ----
    grid = 20 if q else 40
    pairs = _tlc_write("Gen_C08", {"G": grid}, os.path.join(ctx.workdir, "pairs.ndjson"))
    pairs = sorted([p["x"], p["y"], p["z"], p["thr"]] for p in pairs)
    ctx.notes["tlc_enumerated_triple_threshold_pairs"] = len(pairs)
    for i in range(0, len(pairs), 250):
        scs.append({"kind": "determine", "G": grid, "pairs": pairs[i:i + 250]})
    # ---- (hmm) shapes: TLC-enumerated tiny space + seeded random ----
    tiny = _tlc_write("Gen_C08Shapes", {"Sample": 12 if q else 1, "MaxReads": 2}, os.path.join(ctx.workdir, "shapes.ndjson"))
    ctx.notes["tlc_enumerated_shapes"] = len(tiny)
    ctx.notes["tiny_shape_space"] = "every 12th shape of the enumerated space (514)" if q else "the complete enumerated space"
    shapes = [(s, 4 if q else 6) for s in tiny]
    plan = ([("single", 2, 2), ("single", 3, 3), ("single", 4, 3), ("single", 5, 3), ("single", 5, 2), ("single", 4, 4),
             ("single", 9, 3), ("unrelated", 3, 3), ("trio", 2, 3), ("trio", 3, 3), ("trio", 3, 2), ("trio", 4, 3),
             ("quartet", 2, 2), ("single", 5, 0), ("trio", 2, 0)])
    reps = 2 if q else 40
    for rep in range(reps):
        for kind, m, nr in plan:
            if kind == "quartet" and rep % 2 == 1:
                continue
            shapes.append((rand_shape(rng, kind, m, nr), 10 if q else 20))
    # complete coverage gaps: no read links column 2 with column 3 (what is known about the transmission must cross the gap)
    for kind in (["quartet", "trio"] if q else ["quartet"] * 8 + ["trio"] * 6 + ["single"] * 4):
        shapes.append((gap_shape(rng, kind), 10 if q else 16))
    if not q:
        for _ in range(20):
            shapes.append((rand_shape(rng, "single", 10, 4), 20))
            shapes.append((rand_shape(rng, "single", 12, 5), 20))
            shapes.append((rand_shape(rng, "trio", 5, 3), 10))
            shapes.append((rand_shape(rng, "trio", 3, 4), 10))
            shapes.append((rand_shape(rng, "quartet", 3, 3), 6))
    # high coverage (9-12 reads in one column) with BLANK entries in front of covering reads: the Gray code of the column runs
    # through its high bits, where the implementation may treat the partition word differently from the first 256 steps.
    # (own generator forked from the seeded one, so that the other scenario kinds stay what they were)
    import random
    rng_cov = random.Random()
    rng_cov.setstate(rng.getstate())
    first_cov = len(shapes)
    for nr in ([9, 10, 11] if q else [9, 10, 11, 12] * 6):
        shapes.append((cov_shape(rng_cov, rng_cov.choice([3, 3, 4]), nr), 3 if q else 6))
    ctx.notes["hmm_shapes_coverage_9_to_12_with_blanks"] = len(shapes) - first_cov
    # graphs: TLC explores GenoHMM for batches of shapes, several JVMs side by side
    gdir = os.path.join(ctx.workdir, "graphs")
    os.makedirs(gdir, exist_ok=True)
    order = sorted(range(len(shapes)), key=lambda i: -_shape_cost(shapes[i][0]))
    nb = 6
    batches = [[] for _ in range(nb)]
    load = [0] * nb
    for i in order:
        b = load.index(min(load))
        batches[b].append(i)
        load[b] += _shape_cost(shapes[i][0])
    batches = [b for b in batches if b]

    def job(bi):
        b = batches[bi]
        per, r = extract_graphs([shapes[i][0] for i in b], gdir, tag=str(bi))
        for i, edges in zip(b, per):
            _save_graph(os.path.join(gdir, f"g{i}.json"), edges)
        return sum(len(e) for e in per), r["states"], r["wall_s"]
    with ThreadPoolExecutor(max_workers=nb) as ex:
        res = list(ex.map(job, range(len(batches))))
    ctx.notes["hmm_graphs"] = {"shapes": len(shapes), "edges_printed_by_tlc": sum(r[0] for r in res),
                               "states": sum(r[1] for r in res), "tlc_wall_s": round(max(r[2] for r in res), 1)}
    styles = ["normalised", "raw", "uniform", "zero", "normalised", "raw"]
    for i, (s, ndraw) in enumerate(shapes):
        draws = [rand_numbers(rng_cov if i >= first_cov else rng, s, styles[j % len(styles)]) for j in range(ndraw)]
        scs.append({"kind": "hmm", "shape": s, "draws": draws, "graph": os.path.join(gdir, f"g{i}.json")})
    # ---- (cli) worlds ----
    for i in range(60 if q else 2500):
        scs.append(rand_cli(rng, i))
    for i in range(16 if q else 300):
        scs.append(deep_cli(rng))
    for i in range(4 if q else 60):
        scs.append(writer_sc(rng))
    for i in range(12 if q else 300):
        scs.append({"kind": "gap", "seed": rng.randrange(10 ** 9), "q": rng.choice([0, 0, 10]), "constant": rng.choice([0.0, 0.0, 0.1])})
    return scs


def _gap_events(sc):
    """`whatshap genotype` (default priors) on 5 SNVs of which the middle one is covered ONLY by short reads that see no other
    variant (so it is not part of the HMM), and the same run without that record: the calls of the other four variants must
    be identical - what a variant outside the HMM looks like cannot influence the variants inside."""
    import logging
    import random
    from .. import world
    from whatshap.cli.genotype import run_genotype
    rng = random.Random(sc["seed"])
    d = tempfile.mkdtemp(dir=_scratch(), prefix="c08g-")
    try:
        length = 900
        ref = world.random_reference(rng, length)
        pos = [100, 160, 450, 700, 760]
        vs = [world.make_variant(rng, ref, p, "snv") for p in pos]
        hp = [[rng.randint(0, 1) for _ in vs] for _ in range(2)]
        for j in (0, 1, 3, 4):
            if rng.random() < 0.7:
                hp[1][j] = 1 - hp[0][j]
        mid = rng.choice([[0, 0], [1, 1], [1, 1], [0, 1]])       # what the short reads show at the middle variant
        hp[0][2], hp[1][2] = mid
        reads, n = [], 0
        for h in (0, 1):
            hap = world.Haplotype(ref, vs, hp[h])
            for (a, b) in ((60, 220), (660, 820)):
                for _ in range(rng.randint(2, 4)):
                    p0, cig, seq = hap.read(a + rng.randint(0, 20), b - rng.randint(0, 20))
                    qual = "".join(chr(33 + rng.choice([10, 10, 20, 30])) for _ in seq)
                    reads.append({"name": f"r{n}", "ref": 0, "pos": p0, "cigar": world.cigar_str(cig), "seq": seq, "qual": qual, "rg": "A", "mapq": 60})
                    n += 1
            for _ in range(rng.randint(3, 6)):
                p0, cig, seq = hap.read(430 + rng.randint(0, 10), 480 - rng.randint(0, 10))
                reads.append({"name": f"r{n}", "ref": 0, "pos": p0, "cigar": world.cigar_str(cig), "seq": seq, "qual": "I" * len(seq), "rg": "A", "mapq": 60})
                n += 1
        world.write_bam(os.path.join(d, "in.bam"), [("chr1", length)], reads, read_groups=[{"ID": "A", "SM": "A"}])
        recs = [{"chrom": "chr1", "pos": v.pos + 1, "id": f"v{v.pos}", "ref": v.ref, "alt": v.alt, "fmt": ["GT"], "calls": [["0/1"]]} for v in vs]
        outs = {}
        logging.disable(logging.CRITICAL)
        try:
            for tag, rr in (("full", recs), ("without", recs[:2] + recs[3:])):
                world.write_vcf(os.path.join(d, tag + ".vcf"), ["A"], [("chr1", length)], rr)
                run_genotype([os.path.join(d, "in.bam")], os.path.join(d, tag + ".vcf"), output=os.path.join(d, tag + ".out.vcf"),
                             gt_qual_threshold=sc["q"], constant=sc["constant"], write_command_line_header=False)
                _, _, orecs = world.read_vcf_text(os.path.join(d, tag + ".out.vcf"))
                outs[tag] = {r["pos"]: [r["calls"][0].get(k, ".") for k in ("GT", "GQ", "GL")] for r in orecs}
        except Exception as e:
            return [{"ev": "Gap", "exc": type(e).__name__, "a": [], "b": []}]
        finally:
            logging.disable(logging.NOTSET)
        keep = [v.pos + 1 for k, v in enumerate(vs) if k != 2]
        intern = {}
        enc = lambda t: intern.setdefault("|".join(t), len(intern) + 1)
        return [{"ev": "Gap", "exc": "", "a": [enc(outs["full"][p]) for p in keep], "b": [enc(outs["without"][p]) for p in keep]}]
    finally:
        shutil.rmtree(d, ignore_errors=True)


def drive(sc):
    if sc["kind"] == "gap":
        return _gap_events(sc)
    if sc["kind"] == "determine":
        return _determine_events(sc)
    if sc["kind"] == "cli":
        return _cli_events(sc)
    if sc["kind"] == "writer":
        return _writer_events(sc)
    graph = _load_graph(sc)
    return [_posterior_event(sc["shape"], graph, nums) for nums in sc["draws"]]


def post(ctx, scs, per_tid):
    """no extra events; evidence counters only"""
    draws = worst = calls = called = 0
    for evs in per_tid.values():
        for e in evs:
            if e.get("ev") == "Posterior":
                draws += 1
                worst = max([worst] + [x["err"] for x in e["entries"]])
            elif e.get("ev") == "Call":
                calls += 1
                called += e["gt"] >= 0
    ctx.notes["posterior_instances_compared"] = draws
    ctx.notes["posterior_instances_coverage_ge_9_blank_before_covering_read"] = sum(
        1 for evs in per_tid.values() for e in evs if e.get("ev") == "Posterior" and e.get("deepblank"))
    ctx.notes["posterior_worst_relative_deviation_1e-12"] = worst
    ctx.notes["vcf_calls_judged"] = {"total": calls, "called": called, "no_call": calls - called}
    hi = [e["mp"] for evs in per_tid.values() for e in evs if e.get("ev") == "Call" and e["gt"] >= 0 and e.get("file") != "writer"]
    ctx.notes["cli_calls_with_other_mass_below_1e-15"] = sum(1 for m in hi if m > 150000)
    ctx.notes["cli_max_true_GQ"] = max(hi) // 1000 if hi else 0
    return []


def nontrivial(sc, events):
    if sc["kind"] == "determine":
        return True
    if sc["kind"] == "gap":
        return any(e.get("ev") == "Gap" and not e["exc"] and len(set(e["a"])) > 1 for e in events)
    if sc["kind"] == "writer":
        return any(e.get("mp", 0) > 150000 for e in events)
    if sc["kind"] == "hmm":
        cols = [c[0] for r in sc["shape"]["reads"] for c in r["cells"]]
        return len(cols) != len(set(cols))
    gts = [e["gt"] for e in events if e.get("ev") == "Call"]
    if sc.get("deep"):
        return any(e.get("ev") == "Call" and e["gt"] >= 0 and e["mp"] > 150000 for e in events)
    return any(g >= 0 for g in gts) and any(g == -1 for g in gts)


def signature(sc, events, clause):
    if sc["kind"] == "hmm":
        s = sc["shape"]
        return f"hmm nInd={s['nInd']} trios={len(s['trios'])}"
    if sc["kind"] == "determine":
        return "determine_genotype"
    if sc["kind"] == "writer":
        return "GenotypeVcfWriter.write_genotypes direct"
    if sc["kind"] == "gap":
        return "cli twin run with / without a variant outside the HMM"
    files = sorted({e.get("file", "") for e in events if e.get("ev") in ("Call", "Run")})
    return f"cli{' deep' if sc.get('deep') else ''} trio={sc['trio']} nopriors={sc['nopriors']} files={','.join(files)}"


def selftest_corrupt(events):
    done = set()
    for e in events:
        if e["ev"] == "Posterior" and "p" not in done and e["entries"]:
            e["entries"][0]["err"] = POST_TOL + 1
            done.add("p")
        elif e["ev"] == "Determine" and "d" not in done and e["gt"] >= 0:
            e["gt"] = (e["gt"] + 1) % 3
            done.add("d")
        elif e["ev"] == "Call" and "c" not in done and e["gt"] >= 0 and not e["masszero"]:
            e["gq"] += 2
            done.add("c")
        elif e["ev"] == "Call" and "g" not in done and e["gt"] == -1 and e["L"] and max(e["L"]) > 600000 and e["q"] == 0:
            e["gt"] = e["L"].index(max(e["L"]))
            done.add("g")
    return events


MANIFEST = {
    "text": "GenoHMM.tla describes the genotyping HMM structurally (hidden state = read bipartition, transmission value, allele "
            "assignment; micro-steps Carry, Transmit, Assign, Emit with symbolic labels); TLC model-checks its design properties and, "
            "for every instance shape of a run (TLC-enumerated tiny shapes and seeded random ones with blanks, trios in several "
            "orders, a quartet, up to 10 columns so that sqrt-checkpointing is active, and single-individual columns of coverage 9-12 "
            "with blank entries of gapped reads), prints the complete state graph. The driver "
            "substitutes ~20 random number sets per shape and sums over TLC's graph with a generic sum-product in 60-digit arithmetic; "
            "the real GenotypeDPTable must agree to 1e-9 relative, which TLC judges on the recorded deviation. GenoCall.tla defines "
            "the GT/GL/GQ rule on scaled integers; TLC model-checks it on every grid triple x threshold, enumerates triple/threshold "
            "pairs that are fed to the real determine_genotype (exact judgement), and judges every genotyped call of the VCFs "
            "written by in-process `whatshap genotype` runs on materialised worlds (GL sums to one, GT = unique maximum above the "
            "phred threshold, GQ = phred of the other mass, records and samples preserved).",
    "note": "trusted: TLC, GenoHMM.tla/GenoCall.tla as reading of the statement, the generic sum-product and the float-to-integer "
            "conversions in the driver; TLC does no real arithmetic, so the numeric posterior is decided by TLC's graph plus the "
            "driver's summation; beyond the enumerated bounds the evidence is sampling",
    "technique": "TLA+ structural HMM spec explored by TLC (state graph) + generic sum-product; TLA+ decision-rule spec model-checked and "
                 "used for TLC trace validation of recorded calls and CLI outputs",
}
