"""C08 - genotyping reports the exact posterior of its HMM; GT, GL and GQ agree."""
import json
import math
import os
import re
import shutil
import tempfile
from decimal import Decimal, getcontext

from .. import tlc

PROP = "C08"
TRACE_MODULE = "C08_Trace"
EXHAUSTIVE = True
NPROC = 8
SHARDS = 8
TASK_TIMEOUT = 300

getcontext().prec = 60


# =============================================================================================
# (a) posterior: TLC's state graph of GenoHMM + a generic sum-product
# =============================================================================================
def sum_product(edges):
    """Generic sum-product over a weighted DAG.  edges: iterable of (src, dst, weight, tags) with
    hashable nodes and tags.  Every node without predecessor is a source (weight 1), every node
    without successor a sink (weight 1).  Returns (Z, {tag: sum over edges carrying the tag of
    alpha(src) * weight * beta(dst)}), Z = total weight of all source-sink paths."""
    edges = list(edges)
    out, indeg, nodes = {}, {}, []
    for e in edges:
        for n in (e[0], e[1]):
            if n not in indeg:
                indeg[n] = 0
                out[n] = []
                nodes.append(n)
    for e in edges:
        out[e[0]].append(e)
        indeg[e[1]] += 1
    deg = dict(indeg)
    order = [n for n in nodes if deg[n] == 0]
    alpha = {n: Decimal(1) for n in order}
    i = 0
    while i < len(order):
        n = order[i]
        i += 1
        for (_, d, w, _t) in out[n]:
            alpha[d] = alpha.get(d, Decimal(0)) + alpha[n] * w
            deg[d] -= 1
            if deg[d] == 0:
                order.append(d)
    if len(order) != len(nodes):
        raise ValueError("state graph is not acyclic")
    beta = {}
    for n in reversed(order):
        beta[n] = Decimal(1) if not out[n] else sum((w * beta[d] for (_, d, w, _t) in out[n]), Decimal(0))
    z = sum((alpha[n] for n in nodes if not out[n]), Decimal(0))
    mass = {}
    for (s, d, w, tags) in edges:
        if tags:
            f = alpha[s] * w * beta[d]
            for tg in tags:
                mass[tg] = mass.get(tg, Decimal(0)) + f
    return z, mass


def phred_prob(q):
    """10^(-q/10) to 60 digits; the code's special case: quality 0 -> 0.9999"""
    if q == 0:
        return Decimal("0.9999")
    return Decimal(10) ** (Decimal(-q) / Decimal(10))


def _dpow(b, e):
    return Decimal(1) if e == 0 else b ** e


def label_weight(lab, nums):
    """Substitute numbers into a symbolic edge label of GenoHMM.  nums: qual[read-1][cell index],
    cellcol[read-1] = list of columns, prior[i-1][col-1] = triple, rc[col-1]."""
    k = lab["kind"]
    if k in ("carry", "start"):
        return Decimal(1)
    if k == "rec":
        r = Decimal(10) ** (Decimal(-nums["rc"][lab["col"] - 1]) / Decimal(10))
        n = lab["n"]
        term = lambda x: _dpow(r, x) * _dpow(1 - r, n - x)
        norm = sum((cnt * term(x) for x, cnt in enumerate(lab["row"])), Decimal(0))
        return term(lab["x"]) / norm
    if k == "assign":
        col = lab["col"]

        def pr(gv):
            p = Decimal(1)
            for i, g in enumerate(gv):
                p *= Decimal(nums["prior"][i][col - 1][g])
            return p
        norm = sum((pr(gv) for gv in lab["norm"]), Decimal(0))
        return pr(lab["gv"]) / lab["mult"] / norm
    if k == "emit":
        w = Decimal(1)
        for f in lab["factors"]:
            r = f["read"] - 1
            q = nums["qual"][r][nums["cellcol"][r].index(f["col"])]
            p = phred_prob(q)
            w *= (1 - p) if f["match"] else p
        return w
    raise ValueError("unknown label " + k)


def label_tags(lab):
    if lab["kind"] == "assign":
        return [(i + 1, lab["col"], g) for i, g in enumerate(lab["tags"])]
    return ()


def hmm_posterior(graph, shape, nums):
    """posterior[(i, col)] = [P(g=0), P(g=1), P(g=2)] as Decimals, from TLC's edge list"""
    nums = dict(nums, cellcol=[[c[0] for c in r["cells"]] for r in shape["reads"]])
    es = [(json.dumps(e["src"]), json.dumps(e["dst"]), label_weight(e["lab"], nums), label_tags(e["lab"])) for e in graph]
    z, mass = sum_product(es)
    return {(i, c): [mass.get((i, c, g), Decimal(0)) / z for g in range(3)]
            for i in range(1, shape["nInd"] + 1) for c in range(1, shape["m"] + 1)}, z


_RE_EDGE = re.compile(r'^<<"EDGE", "(.*)">>\s*$', re.M)


def extract_graphs(shapes, workdir, tag="g", timeout=1500):
    """One TLC run of MC_GenoHMM (PrintEdges = TRUE) over a batch of shapes; returns one edge list per shape.
    Checks that TLC printed every generated (state, successor) pair exactly once."""
    os.makedirs(workdir, exist_ok=True)
    sf = os.path.join(workdir, f"shapes-{tag}.ndjson")
    with open(sf, "w") as fh:
        for s in shapes:
            fh.write(json.dumps(s, separators=(",", ":")) + "\n")
    cfg = tlc.write_cfg(os.path.join(workdir, f"graph-{tag}.cfg"), spec="Spec", consts={"PrintEdges": "TRUE"},
                        subst={"Shapes": "JsonShapes"})
    r = tlc.model_check("MC_GenoHMM", cfg=cfg, workers=1, timeout=timeout, env={"SHAPE_FILE": sf}, xmx="4g")
    if not r["ok"]:
        raise tlc.TlcError("graph extraction failed:\n" + r["out"][-3000:])
    per = [[] for _ in shapes]
    n = 0
    for m in _RE_EDGE.finditer(r["out"]):
        e = json.loads(m.group(1).replace('\\"', '"').replace("\\\\", "\\"))
        per[e["src"][0] - 1].append(e)
        n += 1
    if n != r["transitions"] - r["init"] or r["init"] != len(shapes):
        raise tlc.TlcError(f"edge print count {n} != generated {r['transitions']} - initial {r['init']}")
    return per, r
