"""C16 - results depend on the input only: not on hash seed, thread count or repetition."""
import hashlib
import itertools
import json
import os
import random
import shutil
import subprocess
import sys

from .. import tlc
from .. import phaseworld as PW

PROP = "C16"
TRACE_MODULE = "C16_Trace"
TASK_TIMEOUT = 900
NPROC = 16
EXHAUSTIVE = False
RULE = ("a scenario is one (subcommand, input) pair - phase (plain / --ped --use-ped-samples / --tag HP with list outputs), genotype "
        "(plain / --ped), polyphase (ploidy 3-4, --threads 1..3), haplotag (--output-threads 1..3, barcoded reads; haplotag_dupnames: "
        "all six samples tagged at once on an alignment file in which one read name occurs in the read groups of two different "
        "samples on a chromosome, one of the two reads assignable and the other with equal support for both haplotypes, run under "
        "seeds that realise both relative orders of every pair of the chosen names in the set of shared samples), haplotagphase, "
        "unphase, stats, compare, split, find_snv_candidates - on a materialised world with 3-4 samples whose names are chosen so that "
        "every iteration order of the sample-name set is realised by some PYTHONHASHSEED (TLC enumerates the permutations, the harness "
        "finds a seed for each), run as `python -m whatshap` subprocesses under 8-14 environments (those seeds, random seeds, thread "
        "counts, repetitions); all outputs are digested record by record with the recorded command line removed; non-trivial = at "
        "least 4 environments produced output for the pair")
ASSUMPTIONS = [
    "2^32 hash seeds cannot be enumerated: what is enumerated is every iteration order of the small unordered collections of sample names, each realised by a seed, plus random seeds",
    "OS scheduling of polyphase workers is not controlled; the pool design is model-checked (PolyPool.tla, all interleavings) and --threads 1..3 results are compared",
    "only the recorded command line (##commandline, @PG CL) is masked; BAM is compared record by record after decompression",
    "read names shared between samples: only pairs (assignable read, unassignable read) are generated; two ASSIGNABLE reads of different samples with one name are excluded (known finding: haplotag keys its assignments by read name only, the later sample of the set wins)",
]
CMDS = ["phase", "phase_ped", "phase_hp_lists", "genotype", "genotype_ped", "polyphase", "haplotag", "haplotagphase",
        "unphase", "stats", "compare", "split", "find_snv_candidates", "polyphase_pre", "polyphase_pre2", "polyphase_pre3",
        # option variants (the result must depend on files and options only, whatever the options are)
        "split_largest", "compare_multi", "stats_gtf", "phase_distrust", "haplotag_regions", "find_snv_multi", "phase_lists_chr2", "stats_chroms_gz", "genotype_ped_cov", "compare_nosample", "phase_two_bams",
        # read names that COLLIDE between the samples of one alignment file (a QNAME identifies a fragment only within its sample)
        "haplotag_dupnames"]


def design_mc(ctx):
    out = []
    cfg = tlc.write_cfg(os.path.join(ctx.workdir, "pool.cfg"), spec="Spec",
                        consts={"NBlocks": 4 if ctx.quick else 5, "Sizes": "{1, 2}", "K": 2, "Resort": "TRUE"},
                        invariants=["ScheduleIndependent", "AtMostKRunning", "CollectedInSubmissionOrder"], properties=["Terminates"])
    r = tlc.model_check("PolyPool", cfg=cfg)
    r["what"] = "PolyPool: every completion order of the worker pool yields the sequential aggregate (re-sort by block id)"
    out.append(r)
    cfg = tlc.write_cfg(os.path.join(ctx.workdir, "pool3.cfg"), spec="Spec",
                        consts={"NBlocks": 4, "Sizes": "{1, 2, 3}", "K": 3, "Resort": "TRUE"},
                        invariants=["ScheduleIndependent", "AtMostKRunning", "CollectedInSubmissionOrder"], properties=["Terminates"])
    r = tlc.model_check("PolyPool", cfg=cfg)
    r["what"] = "PolyPool with 3 workers"
    out.append(r)
    return out


def _orders_by_seed(names, seeds, inter=False):
    """iteration order of set(names) under each PYTHONHASHSEED (one tiny subprocess per seed); inter: of the intersection of
    two sets of these names (how haplotag derives the samples common to BAM and VCF)"""
    code = "import sys,json;print(json.dumps(list(set(json.loads(sys.argv[1])))))"
    if inter:
        code = "import sys,json;n=json.loads(sys.argv[1]);print(json.dumps(list({x for x in n}.intersection(set(n)))))"
    out = {}
    for s in seeds:
        p = subprocess.run([sys.executable, "-c", code, json.dumps(names)], env={"PYTHONHASHSEED": str(s)},
                           capture_output=True, text=True)
        out[s] = tuple(json.loads(p.stdout))
    return out


def scenarios(ctx):
    rng = ctx.rng
    q = ctx.quick
    # TLC enumerates the permutations of the sample-name set (the schedules that matter for hash order)
    perms = tlc.generate("Gen_C16", {"N": 3})
    ctx.notes["tlc_enumerated_orders"] = len(perms)
    scs = []
    nworlds = 2 if q else 8
    for wi in range(nworlds):
        names = rng.sample(["NA12878", "HG002", "kid", "mother", "father", "s_a", "B7", "zebra", "x1"], 3)
        orders = _orders_by_seed(names, range(0, 80))
        seeds = []
        for pm in perms:
            want = tuple(names[i - 1] for i in pm["perm"])
            hit = [s for s, o in orders.items() if o == want]
            if hit:
                seeds.append(hit[0])
        ctx.notes.setdefault("orders_realised", []).append(len(seeds))
        wseed = rng.randrange(10 ** 6)
        for cmd in CMDS:
            envs = [{"hashseed": s, "threads": 1, "rep": 0} for s in seeds]
            envs += [{"hashseed": "random", "threads": 1, "rep": r} for r in range(2)]
            if cmd.startswith("polyphase"):
                envs += [{"hashseed": seeds[i % len(seeds)], "threads": t, "rep": 0} for i, t in enumerate([2, 3, 2, 3])]
            if cmd == "haplotag":
                envs += [{"hashseed": seeds[i % len(seeds)], "threads": t, "rep": 0} for i, t in enumerate([2, 3])]
            if cmd == "haplotag_dupnames":
                # every pair of the chosen names must be worked on in BOTH relative orders: the set that is iterated is the
                # intersection of the six BAM and VCF sample names, so the orders are taken from that very expression
                o6 = _orders_by_seed(list(names) + ["t_dad", "t_mum", "t_kid"], range(0, 24), inter=True)
                picked = set()
                for a_, b_ in itertools.combinations(names, 2):
                    for a_first in (True, False):
                        hit = [s_ for s_, o in sorted(o6.items()) if (o.index(a_) < o.index(b_)) == a_first]
                        picked.update(hit[:1])
                envs += [{"hashseed": s_, "threads": 1, "rep": 0} for s_ in sorted(picked) if s_ not in seeds]
                envs += [{"hashseed": seeds[i % len(seeds)], "threads": t, "rep": 0} for i, t in enumerate([2, 3])]
            if cmd == "polyphase_pre3":
                # two samples, only one of them pre-phased: both iteration orders of the two-name set must be realised
                o2 = _orders_by_seed(names[:2], range(0, 40))
                for want in (tuple(names[:2]), tuple(reversed(names[:2]))):
                    hit = [s for s, o in o2.items() if o == want]
                    envs += [{"hashseed": s, "threads": 1, "rep": 0} for s in hit[:2]]
            if not q:
                envs += [{"hashseed": rng.randrange(1, 2 ** 31), "threads": 1, "rep": 0} for _ in range(4)]
            scs.append({"cmd": cmd, "names": names, "wseed": wseed, "envs": envs, "input": wi + 1})
    return scs


# ----------------------------------------------------------------------------------------------
def _world(sc, **kw):
    rng = random.Random(sc["wseed"])
    names = sc["names"]
    ped = [[names[0], names[1], names[2]], ["t_dad", "t_mum", "t_kid"]]
    w = PW.rand_world(rng, nsamples=6, nchroms=2, depth=(1, 3), het_prob=0.8,
                      **dict({"max_sites": 6, "kinds": ("snv", "snv", "ins", "del")}, **kw))
    # rename samples s1..s6: the first trio gets the chosen names (all iteration orders realised), a second family follows
    ren = {f"s{i+1}": n for i, n in enumerate(list(names) + ["t_dad", "t_mum", "t_kid"])}
    w["samples"] = [ren[s] for s in w["samples"]]
    w["truth"] = {ren[s]: v for s, v in w["truth"].items()}
    for r in w["reads"]:
        r["sample"] = ren[r["sample"]]
    # Mendelian-consistent child so that --ped runs are meaningful
    for ci in range(len(w["chroms"])):
        for si in range(len(w["chroms"][ci]["sites"])):
            f, m = w["truth"][names[0]][ci][si], w["truth"][names[1]][ci][si]
            w["truth"][names[2]][ci][si] = [f[rng.randint(0, 1)], m[rng.randint(0, 1)]]
            f, m = w["truth"]["t_dad"][ci][si], w["truth"]["t_mum"][ci][si]
            w["truth"]["t_kid"][ci][si] = [f[rng.randint(0, 1)], m[rng.randint(0, 1)]]
    w["ped"] = ped
    w["errfree"] = False
    # conflicting reads (random alleles) so that optimal solutions are not unique and tie-breaking is exercised
    for r in list(w["reads"]):
        if rng.random() < 0.5:
            w["reads"].append(dict(r, alleles=[rng.randint(0, 1) for _ in range(r["first"], r["last"] + 1)], gap=None,
                                   copies=rng.randint(1, 2)))
    return w


def _dupname_bam(wd, d, paths, names, gz):
    """dup.bam: the alignment file of the world plus pairs of reads of two DIFFERENT samples on one chromosome that carry the
    SAME read name - one read that haplotag can assign (it shows one haplotype of its own sample at a phased SNV) and one that
    it cannot (it shows haplotype 1 at one phased SNV and haplotype 2 at the next one of the same phase set of ITS sample:
    equal support).  Returns the number of such pairs.  The case in which BOTH reads of a name are assignable is not generated
    (known finding: the tags of such a name follow the iteration order of the sample set even in the unchanged code)."""
    import logging
    import pysam
    from whatshap.cli.haplotag import run_haplotag
    _, _, recs = PW.project_vcf(os.path.join(d, "phased.vcf"), wd["samples"], paths["names"])
    ph = {}     # (sample, chromosome) -> [(site, kind, allele on haplotype 1, allele on haplotype 2, phase set)] of the phased het calls
    for r in recs:
        ci = r["chrom"]
        if ci < 0:
            continue
        vs = paths["seqs"][ci][1]
        si = next((i for i, v in enumerate(vs) if v.pos == r["pos"] and v.ref == r["ref"] and v.alt == r["alt"]), None)
        if si is None:
            continue
        for s in names:
            als, phased, ps, _hp = r["calls"][s]
            if phased and len(als) == 2 and set(als) == {0, 1}:
                ph.setdefault((s, ci), []).append((si, wd["chroms"][ci]["sites"][si]["kind"], als[0], als[1], ps))
    extra, pairs = [], []
    n0 = sum(r.get("copies", 1) for r in wd["reads"])
    for ci in range(len(wd["chroms"])):
        for x, y in itertools.permutations(names, 2):
            px = [t for t in ph.get((x, ci), []) if t[1] == "snv"]
            py = sorted(ph.get((y, ci), []))
            ties = [(a, b) for a, b in zip(py, py[1:]) if a[1] == "snv" and b[1] == "snv" and a[4] == b[4]]
            if not px or not ties:
                continue
            k = len(pairs)
            t = px[k % len(px)]
            h = k % 2
            a, b = ties[k % len(ties)]
            mid = [wd["truth"][y][ci][m][0] for m in range(a[0] + 1, b[0])]
            extra.append({"sample": x, "chrom": ci, "hap": 0, "first": t[0], "last": t[0], "alleles": [t[2 + h]], "gap": None, "copies": 1})
            extra.append({"sample": y, "chrom": ci, "hap": 0, "first": a[0], "last": b[0], "alleles": [a[2]] + mid + [b[3]], "gap": None, "copies": 1})
            pairs.append((f"rd{n0 + len(extra) - 1:05d}", f"rd{n0 + len(extra):05d}"))
    d2 = os.path.join(d, "dupw")
    os.makedirs(d2, exist_ok=True)
    p2 = PW.materialise(dict(wd, reads=list(wd["reads"]) + extra), d2)
    # which of the constructed reads are assignable / not assignable is read off one (not judged) run on the file in which
    # all names are still distinct; only pairs (assignable, not assignable) get a common name
    logging.disable(logging.ERROR)
    run_haplotag(variant_file=gz, alignment_file=p2["bam"], output=os.path.join(d2, "probe.bam"), reference=paths["ref"],
                 haplotag_list=os.path.join(d2, "probe.tsv"))
    got = {}
    with open(os.path.join(d2, "probe.tsv")) as fh:
        for line in fh:
            f = line.rstrip("\n").split("\t")
            if not line.startswith("#") and len(f) >= 2:
                got.setdefault(f[0], set()).add(f[1])
    ren = {tie: asg for asg, tie in pairs if got.get(asg) and got[asg] <= {"H1", "H2"} and got.get(tie) == {"none"}}
    with pysam.AlignmentFile(p2["bam"]) as inp, pysam.AlignmentFile(os.path.join(d, "dup.bam"), "wb", header=inp.header) as out:
        for a in inp:
            if a.query_name in ren:
                a.query_name = ren[a.query_name]
            out.write(a)
    pysam.index(os.path.join(d, "dup.bam"))
    shutil.rmtree(d2, ignore_errors=True)
    return len(ren)


def _digest_file(path):
    import pysam
    if not os.path.exists(path):
        return "missing"
    h = hashlib.sha1()
    if path.endswith(".bam"):
        with pysam.AlignmentFile(path, check_sq=False) as f:
            hd = f.header.to_dict()
            for pg in hd.get("PG", []):
                pg.pop("CL", None)
            h.update(json.dumps(hd, sort_keys=True).encode())
            for a in f.fetch(until_eof=True):
                h.update(a.to_string().encode())
    else:
        import gzip
        op = gzip.open if path.endswith(".gz") else open
        with op(path, "rt", errors="replace") as fh:
            for line in fh:
                if line.startswith("##commandline"):
                    continue
                h.update(line.encode())
    return h.hexdigest()


def drive(sc):
    from .. import world as W
    import pysam
    builddir = next(p for p in sys.path if "/build-" in p)
    d = PW.workdir()
    try:
        cmd = sc["cmd"]
        outs = []
        ndup = 0
        if cmd.startswith("polyphase"):
            from . import c15
            pre = cmd != "polyphase"
            prng = random.Random(sc["wseed"] + len(cmd))
            psc = c15.random_poly_scenario(prng, prng.choice([3, 4]), prng.choice([2, 4]), pre)
            # several blocks of different sizes (coverage gaps), pre-phased input for the --use-prephasing variants
            psc.update(nsamples=1 if pre else 2, nchrom=1, distrust=False, ignore_rg=False, nvar=[18, 30] if pre else [12, 20],
                       nreads=[60, 110] if pre else [40, 70], gap=True, prephased_input=pre, use_prephasing=pre, err=0.02 if pre else psc["err"])
            if cmd == "polyphase_pre3":
                psc.update(nsamples=2, sample_names=sc["names"][:2], unphased_samples=[sc["names"][prng.randint(0, 1)]],
                           nvar=[14, 22], nreads=[50, 80])
            pw = c15.build_world(psc, d)
            base = ["polyphase", "--ploidy", str(psc["ploidy"]), "-o", "{out}/out.vcf", "--block-cut-sensitivity", str(psc["sens"])] + \
                   (["--use-prephasing"] if pre else []) + [os.path.join(d, "in.vcf"), os.path.join(d, "in.bam")]
            outs = ["out.vcf"]
        else:
            wd = _world(sc)
            if cmd == "haplotag_dupnames":
                # more (mostly SNV) sites, and the phased VCF is written directly: blocks of 2-4 sites carrying the haplotypes
                # of the world in either orientation, some blocks left unphased (materialise: phase_vcf)
                wd = _world(sc, max_sites=10, kinds=("snv", "snv", "snv", "ins", "del"))
                wd["phase_vcf"] = 1
            if cmd == "phase_two_bams":
                wd["two_bams"] = True          # the reads spread over two alignment files (source ids 0 and 1 in command-line order)
            paths = PW.materialise(wd, d)
            names = sc["names"]
            # inputs derived once (not judged): a phased VCF, its compressed copy, tagged BAM, haplotag list
            wd["opts"] = {}
            if cmd in ("unphase", "stats", "compare", "haplotag", "haplotagphase", "split", "split_largest", "compare_multi",
                       "stats_gtf", "haplotag_regions", "stats_chroms_gz", "compare_nosample", "haplotag_dupnames"):
                if cmd == "haplotag_dupnames":
                    shutil.copy(paths["pvcf"], os.path.join(d, "phased.vcf"))
                else:
                    exc, _, _ = PW.run_phase(wd, d, paths, out_name="phased.vcf")
                    assert exc == "", exc
                shutil.copy(os.path.join(d, "phased.vcf"), os.path.join(d, "phased_copy.vcf"))
                gz = pysam.tabix_index(os.path.join(d, "phased_copy.vcf"), preset="vcf", force=True)
            if cmd in ("haplotagphase", "split", "split_largest"):
                from whatshap.cli.haplotag import run_haplotag
                import logging
                logging.disable(logging.ERROR)
                run_haplotag(variant_file=gz, alignment_file=paths["bam"], output=os.path.join(d, "tagged.bam"),
                             reference=paths["ref"], haplotag_list=os.path.join(d, "list.tsv"))
                pysam.index(os.path.join(d, "tagged.bam"))
            if cmd == "haplotag_dupnames":
                ndup = _dupname_bam(wd, d, paths, names, gz)
            if cmd == "split_largest":
                # a list in which several phase sets of a chromosome TIE for the largest number of tagged reads
                per = {}
                with pysam.AlignmentFile(os.path.join(d, "tagged.bam")) as bf:
                    for a in bf:
                        if not a.is_unmapped and a.query_name not in per.setdefault(a.reference_name, []):
                            per[a.reference_name].append(a.query_name)
                seen = set()
                with open(os.path.join(d, "list.tsv"), "w") as fh:
                    fh.write("#readname\thaplotype\tphaseset\tchromosome\n")
                    for ch_, nms in per.items():
                        nms = [n_ for n_ in nms if n_ not in seen]
                        seen.update(nms)
                        k3 = len(nms) // 3
                        for i, n_ in enumerate(nms):
                            if i < 3 * k3:
                                fh.write(f"{n_}\tH{1 + i % 2}\t{['1000', '20000', '31'][i // k3]}\t{ch_}\n")
                            else:
                                fh.write(f"{n_}\tnone\tnone\t{ch_}\n")
            if cmd == "find_snv_multi":
                # a pile-up in which several non-reference bases have exactly the same support (ties between ALT alleles)
                ref0 = paths["seqs"][0][0]
                trd = []
                for col in (30, 61, 95):
                    others = [b_ for b_ in "ACGT" if b_ != ref0[col]]
                    for k_, b_ in enumerate(others * 2):
                        st_ = col - 15 - k_
                        seq_ = ref0[st_:col] + b_ + ref0[col + 1:st_ + 40]
                        trd.append({"name": f"tie{col}_{k_}", "flag": 0, "ref": 0, "pos": st_, "cigar": "40M", "seq": seq_, "rg": "rg_" + names[0]})
                W.write_bam(os.path.join(d, "ties.bam"), [(n_, len(sq_[0])) for n_, sq_ in zip(paths["names"], paths["seqs"])], trd,
                            [{"ID": "rg_" + names[0], "SM": names[0]}])
            if cmd == "haplotagphase":
                from whatshap.cli.unphase import run_unphase
                with open(os.path.join(d, "unphased.vcf"), "w") as fh:
                    run_unphase(os.path.join(d, "phased.vcf"), fh)
            if cmd in ("compare", "compare_multi", "compare_nosample"):
                wd2 = dict(wd, opts={"max_coverage": 2})
                exc, _, _ = PW.run_phase(wd2, d, paths, out_name="phased2.vcf")
                assert exc == "", exc
            if cmd == "compare_multi":
                wd3 = dict(wd, opts={"max_coverage": 1})
                exc, _, _ = PW.run_phase(wd3, d, paths, out_name="phased3.vcf")
                assert exc == "", exc
            if cmd == "stats_gtf":
                with open(os.path.join(d, "lengths.tsv"), "w") as fh:
                    for ch_, sq_ in zip(paths["names"], paths["seqs"]):
                        fh.write(f"{ch_}\t{len(sq_[0]) + 1000}\n")
            base, outs = {
                "phase": (["phase", "--reference", paths["ref"], "-o", "{out}/out.vcf", paths["vcf"], paths["bam"]], ["out.vcf"]),
                "phase_ped": (["phase", "--reference", paths["ref"], "-o", "{out}/out.vcf", "--ped", paths["ped"], "--use-ped-samples",
                               "--recombination-list", "{out}/rec.tsv", "--output-read-list", "{out}/reads.tsv", paths["vcf"], paths["bam"]],
                              ["out.vcf", "rec.tsv", "reads.tsv"]),
                "phase_hp_lists": (["phase", "--reference", paths["ref"], "-o", "{out}/out.vcf", "--tag", "HP",
                                    "--output-read-list", "{out}/reads.tsv", paths["vcf"], paths["bam"]], ["out.vcf", "reads.tsv"]),
                "genotype": (["genotype", "--reference", paths["ref"], "-o", "{out}/out.vcf", paths["vcf"], paths["bam"]], ["out.vcf"]),
                "genotype_ped": (["genotype", "--reference", paths["ref"], "-o", "{out}/out.vcf", "--ped", paths["ped"],
                                  paths["vcf"], paths["bam"]], ["out.vcf"]),
                "haplotag": (["haplotag", "--reference", paths["ref"], "-o", "{out}/out.bam", "--output-haplotag-list", "{out}/list.tsv",
                              "--output-threads", "{threads}", os.path.join(d, "phased_copy.vcf.gz"), paths["bam"]], ["out.bam", "list.tsv"]),
                # no --sample: all samples common to VCF and BAM are worked on, in the iteration order of a set of names
                "haplotag_dupnames": (["haplotag", "--reference", paths["ref"], "-o", "{out}/out.bam", "--output-haplotag-list", "{out}/list.tsv",
                                       "--output-threads", "{threads}", os.path.join(d, "phased_copy.vcf.gz"), os.path.join(d, "dup.bam")],
                                      ["out.bam", "list.tsv"]),
                "haplotagphase": (["haplotagphase", "--reference", paths["ref"], "-o", "{out}/out.vcf",
                                   os.path.join(d, "unphased.vcf"), os.path.join(d, "tagged.bam")], ["out.vcf"]),
                "unphase": (["unphase", os.path.join(d, "phased.vcf")], ["stdout"]),
                "stats": (["stats", "--tsv", "{out}/s.tsv", "--block-list", "{out}/b.tsv", "--sample", names[0],
                           os.path.join(d, "phased.vcf")], ["s.tsv", "b.tsv", "stdout"]),
                "compare": (["compare", "--tsv-pairwise", "{out}/p.tsv", "--names", "a,b", "--sample", names[0],
                             os.path.join(d, "phased.vcf"), os.path.join(d, "phased2.vcf")], ["p.tsv", "stdout"]),
                "split": (["split", "--output-h1", "{out}/h1.bam", "--output-h2", "{out}/h2.bam", "--output-untagged", "{out}/u.bam",
                           "--read-lengths-histogram", "{out}/hist.tsv", os.path.join(d, "tagged.bam"), os.path.join(d, "list.tsv")],
                          ["h1.bam", "h2.bam", "u.bam", "hist.tsv"]),
                "split_largest": (["split", "--only-largest-block", "--discard-unknown-reads", "--output-h1", "{out}/h1.bam",
                                   "--output-h2", "{out}/h2.bam", "--output-untagged", "{out}/u.bam",
                                   "--read-lengths-histogram", "{out}/hist.tsv", os.path.join(d, "tagged.bam"), os.path.join(d, "list.tsv")],
                                  ["h1.bam", "h2.bam", "u.bam", "hist.tsv"]),
                "compare_multi": (["compare", "--tsv-multiway", "{out}/m.tsv", "--tsv-pairwise", "{out}/p.tsv", "--switch-error-bed", "{out}/sw.bed",
                                   "--longest-block-tsv", "{out}/lb.tsv", "--names", "a,b,c", "--sample", names[0],
                                   os.path.join(d, "phased.vcf"), os.path.join(d, "phased2.vcf"), os.path.join(d, "phased3.vcf")],
                                  ["m.tsv", "p.tsv", "sw.bed", "lb.tsv", "stdout"]),
                "stats_gtf": (["stats", "--gtf", "{out}/b.gtf", "--tsv", "{out}/s.tsv", "--block-list", "{out}/b.tsv", "--only-snvs",
                               "--chr-lengths", os.path.join(d, "lengths.tsv"), os.path.join(d, "phased.vcf")],
                              ["b.gtf", "s.tsv", "b.tsv", "stdout"]),
                "phase_distrust": (["phase", "--reference", paths["ref"], "-o", "{out}/out.vcf", "--distrust-genotypes", "--include-homozygous",
                                    "--changed-genotype-list", "{out}/gt.tsv", "--output-read-list", "{out}/reads.tsv",
                                    paths["vcf"], paths["bam"]], ["out.vcf", "gt.tsv", "reads.tsv"]),
                "genotype_ped_cov": (["genotype", "--reference", paths["ref"], "-o", "{out}/out.vcf", "--ped", paths["ped"],
                                      "--max-coverage", "4", paths["vcf"], paths["bam"]], ["out.vcf"]),
                # several samples common to both files and no --sample: whatever the command does (today: a usage error), it must
                # do the same thing under every hash seed - the outcome (exit status, message, any output) is the result
                "compare_nosample": (["compare", "--tsv-pairwise", "{out}/p.tsv", "--names", "a,b",
                                      os.path.join(d, "phased.vcf"), os.path.join(d, "phased2.vcf")], ["p.tsv", "stdout", "outcome"]),
                "phase_two_bams": (["phase", "--reference", paths["ref"], "-o", "{out}/out.vcf", "--output-read-list", "{out}/reads.tsv",
                                    paths["vcf"], paths["bam"], paths.get("bam2") or paths["bam"]], ["out.vcf", "reads.tsv"]),
                "stats_chroms_gz": (["stats", "--tsv", "{out}/s.tsv", "--block-list", "{out}/b.tsv", "--gtf", "{out}/b.gtf",
                                     "--chromosome", paths["names"][-1], "--chromosome", paths["names"][0], "--sample", names[1],
                                     os.path.join(d, "phased_copy.vcf.gz")], ["s.tsv", "b.tsv", "b.gtf", "stdout"]),
                "phase_lists_chr2": (["phase", "--reference", paths["ref"], "-o", "{out}/out.vcf", "--distrust-genotypes",
                                      "--changed-genotype-list", "{out}/gt.tsv", "--output-read-list", "{out}/reads.tsv",
                                      "--ped", paths["ped"], "--recombination-list", "{out}/rec.tsv",
                                      "--chromosome", paths["names"][-1], paths["vcf"], paths["bam"]],
                                     ["out.vcf", "gt.tsv", "reads.tsv", "rec.tsv"]),
                "haplotag_regions": (["haplotag", "--reference", paths["ref"], "-o", "{out}/out.bam", "--output-haplotag-list", "{out}/list.tsv",
                                      "--regions", paths["names"][0] + ":1-160", "--regions", paths["names"][-1] + ":100-400",
                                      "--tag-supplementary", "--ignore-linked-read", "--sample", names[0], "--sample", names[2],
                                      os.path.join(d, "phased_copy.vcf.gz"), paths["bam"]], ["out.bam", "list.tsv"]),
                "find_snv_multi": (["find_snv_candidates", paths["ref"], os.path.join(d, "ties.bam"), "-o", "{out}/cand.vcf", "--multi-allelics", "--minabs", "1",
                                    "--minrel", "0.05", "--sample", "any"], ["cand.vcf"]),
                "find_snv_candidates": (["find_snv_candidates", paths["ref"], paths["bam"], "-o", "{out}/cand.vcf", "--minabs", "1",
                                         "--minrel", "0.1"], ["cand.vcf"]),
            }[cmd]
        evs = []
        digests = {}
        # REPEATED EXECUTION IN PLACE: the last environment runs the command a second time into the output directory of the
        # first one (the files of the earlier execution are still there) - the result must not depend on what was on disk
        envs = list(sc["envs"]) + [dict(sc["envs"][0], rep=2, inplace=True)]
        for k, env in enumerate(envs):
            od = os.path.join(d, "run0" if env.get("inplace") else f"run{k}")
            os.makedirs(od, exist_ok=True)
            args = [a.replace("{out}", od).replace("{threads}", str(env["threads"])) for a in base]
            if cmd.startswith("polyphase"):
                args = args[:1] + ["--threads", str(env["threads"])] + args[1:]
            e = dict(os.environ, PYTHONPATH=builddir)
            e.pop("WHATSHAP_VERIF_TRACE", None)
            if env["hashseed"] == "random":
                e.pop("PYTHONHASHSEED", None)
            else:
                e["PYTHONHASHSEED"] = str(env["hashseed"])
            p = subprocess.run([sys.executable, "-m", "whatshap"] + args, env=e, cwd=od, capture_output=True, text=True, timeout=600)
            exc = "" if p.returncode == 0 else f"exit {p.returncode}: " + p.stderr[-300:]
            if "outcome" in outs:
                exc = ""
            parts = []
            for o in outs:
                if o == "outcome":
                    last = [l for l in p.stderr.splitlines() if l.strip()][-1:] if p.returncode else []
                    parts.append(hashlib.sha1(f"{p.returncode}|{last}".encode()).hexdigest())
                elif o == "stdout":
                    parts.append(hashlib.sha1("\n".join(l for l in p.stdout.splitlines() if not l.startswith("##commandline")).encode()).hexdigest())
                else:
                    parts.append(_digest_file(os.path.join(od, o)))
            dg = hashlib.sha1("|".join(parts).encode()).hexdigest()
            did = digests.setdefault(dg, len(digests) + 1)
            evs.append({"ev": "Run", "cmd": CMDS.index(cmd) + 1, "input": sc["input"], "exc": exc,
                        "hashseed": env["hashseed"] if env["hashseed"] != "random" else -1, "threads": env["threads"],
                        "rep": env["rep"], "digest": did, "outs": len([x for x in parts if x != "missing"]), "dups": ndup})
            if k > 0 and not env.get("inplace"):
                shutil.rmtree(od, ignore_errors=True)
        return evs
    finally:
        shutil.rmtree(d, ignore_errors=True)


def nontrivial(sc, events):
    if sc["cmd"] == "haplotag_dupnames" and not any(e.get("dups", 0) > 0 for e in events):
        return False        # no read name shared by an assignable read of one sample and an unassignable read of another
    return sum(1 for e in events if e.get("ev") == "Run" and e["exc"] == "" and e["outs"] > 0) >= 4


def signature(sc, events, clause):
    return f"cmd={sc['cmd']}"


def selftest_corrupt(events):
    n = 0
    for e in events:
        if e["ev"] == "Run" and e["rep"] == 1:
            e["digest"] += 100
            return events
    return events


MANIFEST = {
    "text": "Determinism.tla states the property as: the result stays a function of (command, input) over every history of runs under "
            "any environment; PolyPool.tla model-checks that every completion order of the polyphase worker pool yields the sequential "
            "aggregate (and that dropping the re-sort breaks it). Every subcommand is executed as a subprocess on materialised inputs "
            "under environments chosen so that all iteration orders of the sample-name set are realised by a PYTHONHASHSEED, plus random "
            "seeds, --threads/--output-threads 1..3 and repetitions (haplotag also on alignment files whose read names collide between "
            "samples); TLC validates the recorded history of digests against Determinism.",
    "note": "trusted: TLC, the digest (command line masked, BAM compared record-wise); hash seeds are covered as iteration orders of "
            "sample-name sets plus random seeds, worker scheduling by thread counts plus the model-checked pool design",
    "technique": "TLA+ history spec + TLC model checking of the pool design + TLC trace validation of recorded run histories",
}
