"""C19 - genotype indexing is a bijection; edit distance is true Levenshtein distance."""
import json
import os
import random

from .. import tlc

PROP = "C19"
TRACE_MODULE = "C19_Trace"
EXHAUSTIVE = True
RULE = ("scenarios are batches: every genotype of a (ploidy, #alleles) space enumerated by TLC (Gen_C19), "
        "all ordered genotype pairs of small spaces, every string pair over a small alphabet enumerated by TLC, "
        "plus seeded random genotypes up to ploidy 14 / 16 alleles and random strings up to length 14, and batches of planted "
        "long pairs (300-700 letters, distance = number of planted foreign letters) whose calls are issued from 4-8 threads at "
        "once (the DP runs without the interpreter lock); a batch is "
        "non-trivial if it contains a heterozygous genotype of ploidy >= 2, or a string pair with distance >= 1 "
        "and both strings non-empty")
ASSUMPTIONS = [
    "TLC evaluates the TLA+ definitions (order-rank Index, recursive Lev) correctly",
    "IndexCF (closed form) is used instead of the counting definition beyond ploidy 6 / 6 alleles; MC_GenotypeIndex proves them equal up to ploidy 4-5 / 5-6 alleles only",
    "LevDP is used instead of the recursive definition; MC_EditDistance proves them equal on all string pairs up to length 3-4",
    "concurrent calls are judged on planted pairs only: s avoids one letter, t = s with d positions replaced by that letter, so "
    "Lev(s, t) = d (every foreign letter needs its own edit operation, d substitutions suffice); TLC checks the planting",
]
BANDS = 6  # bands 0..5


def design_mc(ctx):
    out = []
    cfg = _cfg(ctx, "MC_GenotypeIndex", {"MaxP": 4 if ctx.quick else 5, "MaxA": 5 if ctx.quick else 6},
               ["DefIsRank", "ClosedFormIsDef", "Gapless", "CountIsBinomial", "TotalOrder"])
    r = tlc.model_check("MC_GenotypeIndex", cfg=cfg)
    r["what"] = "MC_GenotypeIndex (walk VCF order; closed form = rank; gapless)"
    out.append(r)
    cfg = _cfg(ctx, "MC_EditDistance", {"MaxLen": 3 if ctx.quick else 4, "Alphabet": "{0, 1}" if ctx.quick else "{0, 1, 2}"},
               ["CellIsLev", "FinalIsLev", "Symmetric", "ZeroIffEq", "LenBounds"])
    r = tlc.model_check("MC_EditDistance", cfg=cfg)
    r["what"] = "MC_EditDistance (row DP = recursive Levenshtein on all prefixes)"
    out.append(r)
    return out


def _cfg(ctx, module, consts, invs, spec="Spec"):
    path = os.path.join(ctx.workdir, module + ".cfg")
    with open(path, "w") as fh:
        if spec:
            fh.write(f"SPECIFICATION {spec}\n")
        if consts:
            fh.write("CONSTANTS\n")
            for k, v in consts.items():
                fh.write(f"  {k} = {v}\n")
        for i in invs:
            fh.write(f"INVARIANT {i}\n")
    return path


def scenarios(ctx):
    q = ctx.quick
    rng = ctx.rng
    scs = []
    # --- TLC enumerates the small spaces (spec -> code) ---
    gen = os.path.join(ctx.workdir, "gen.ndjson")
    cfgs = [dict(MaxP=5 if q else 6, MaxA=5 if q else 6, CmpP=2 if q else 3, CmpA=3 if q else 4,
                 MaxLen=4 if q else 5, AlphaSize=2),
            dict(MaxP=1, MaxA=1, CmpP=1, CmpA=1, MaxLen=3 if q else 4, AlphaSize=3)]
    lines = []
    for i, c in enumerate(cfgs):
        cfg = _cfg(ctx, f"Gen_C19_{i}", c, [], spec=None)
        # evaluate() uses <module>.cfg in specs dir; pass explicit cfg through model_check-like call
        out = tlc._java(["-config", cfg, "-workers", "1", "-metadir", tlc._metadir(), "-noGenerateSpecTE", "Gen_C19.tla"],
                        env_extra={"OUT_FILE": gen}, timeout=1200, serial=True)
        if out[0] != 0:
            raise tlc.TlcError("Gen_C19 failed:\n" + out[1][-2000:])
        with open(gen) as fh:
            lines.extend(json.loads(x) for x in fh if x.strip())
    spaces = {}
    cmps, edits = [], set()
    for o in lines:
        if o["k"] == "geno":
            if o["g"] not in spaces.setdefault(o["p"], []):
                spaces[o["p"]].append(o["g"])
        elif o["k"] == "cmp":
            if [o["g"], o["h"]] not in cmps:
                cmps.append([o["g"], o["h"]])
        elif o["k"] == "edit":
            edits.add((tuple(o["s"]), tuple(o["t"])))
    maxa = cfgs[0]["MaxA"]
    for p, gs in sorted(spaces.items()):
        for a in range(1, maxa + 1):
            sub = [g for g in gs if max(g) < a]
            scs.append({"kind": "space", "p": p, "a": a,
                        "genos": [rng.sample(g, len(g)) for g in sorted(sub)]})
    cmps.sort()
    for i in range(0, len(cmps), 200):
        scs.append({"kind": "cmp", "pairs": cmps[i:i + 200]})
    edits = sorted(edits)
    for i in range(0, len(edits), 100):
        scs.append({"kind": "edit", "pairs": [[list(s), list(t)] for s, t in edits[i:i + 100]],
                    "bytes": (i // 100) % 2 == 1})
    ctx.notes["tlc_enumerated"] = {"genotypes": sum(len(v) for v in spaces.values()), "genotype_pairs": len(cmps),
                                   "string_pairs": len(edits)}
    # --- seeded random, beyond TLC's enumeration bound ---
    nrand = 20 if q else 200
    for _ in range(nrand):
        gs = []
        for _ in range(40):
            p = rng.randint(0, 14)
            a = rng.choice([2, 3, 4, 8, 16])
            gs.append([rng.randrange(a) for _ in range(p)])
        gs.append([15] * 14)
        gs.append([])                       # the empty genotype (a missing call), restored into a non-empty carrier
        scs.append({"kind": "georand", "genos": gs})
    for _ in range(nrand):
        prs = []
        for _ in range(40):
            p = rng.randint(1, 3)
            a = rng.choice([2, 3, 4])
            prs.append([[rng.randrange(a) for _ in range(p)], [rng.randrange(a) for _ in range(p)]])
        for _ in range(20):
            p = rng.randint(4, 14)
            g = [rng.randrange(16) for _ in range(p)]
            h = list(g)
            if rng.random() < 0.7:
                h[rng.randrange(p)] = rng.randrange(16)
            rng.shuffle(h)
            prs.append([g, h])
        # genotypes of DIFFERENT ploidy (the index is a rank within one ploidy only): extra reference alleles, the empty
        # genotype, haploid against diploid
        for _ in range(25):
            p = rng.randint(0, 5)
            g = [rng.randrange(4) for _ in range(p)]
            h = g + [0] * rng.randint(1, 2) if rng.random() < 0.7 else [rng.randrange(4) for _ in range(rng.randint(0, 6))]
            rng.shuffle(h)
            prs.append([g, h] if rng.random() < 0.5 else [h, g])
        prs += [[[], [0, 0]], [[0], []], [[1, 1], [2]], [[0, 1], [0, 0, 1]]]
        scs.append({"kind": "cmp", "pairs": prs})
    for _ in range(nrand):
        prs = []
        for _ in range(40):
            k = rng.choice([2, 3, 4])
            n = rng.randint(0, 14)
            s = [rng.randrange(k) for _ in range(n)]
            t = list(s)
            for _ in range(rng.randint(0, 6)):
                op = rng.randrange(3)
                if op == 0 and t:
                    del t[rng.randrange(len(t))]
                elif op == 1 and len(t) < 14:
                    t.insert(rng.randint(0, len(t)), rng.randrange(k))
                elif t:
                    t[rng.randrange(len(t))] = rng.randrange(k)
            prs.append([s, t])
        scs.append({"kind": "edit", "pairs": prs, "bytes": rng.random() < 0.5})
    # the distance of a call must not depend on what other threads are doing (the DP runs without the interpreter lock):
    # the same calls issued from several threads at once, on strings long enough for the calls to overlap
    for _ in range(2 if ctx.quick else 8):
        prs = []
        for _ in range(8):
            n = rng.randint(300, 700)
            s1 = [rng.randrange(3) for _ in range(n)]          # letters 0..2 only
            t1 = list(s1)
            for pos in rng.sample(range(n), rng.randint(1, 40)):
                t1[pos] = 3                                      # planted substitutions by a letter s does not contain
            prs.append([s1, t1])
        scs.append({"kind": "editpar", "pairs": prs, "threads": rng.choice([4, 8]), "reps": 40})
    return scs


# ----------------------------------------------------------------------------------------------
def _carrier(alleles):
    k = (len(alleles) * 7 + sum(alleles) + 1) % 5
    return [[], [1, 1], [0, 1, 2], [0, 1], [(a + 1) % 16 for a in alleles][:14]][k]


def _geno_event(alleles, space):
    from whatshap.core import Genotype
    g = Genotype(list(alleles))
    st = g.__getstate__()
    # the state is restored into a CARRIER object whose previous content varies (empty, other ploidy, other alleles):
    # restoring must overwrite whatever the object held before
    h = Genotype(_carrier(alleles))
    if (len(alleles) + sum(alleles)) % 2 == 0:
        # observe -> restore -> observe on ONE object: whatever the carrier reported about itself before must not survive
        h.get_index(), hash(h), h.__getstate__()
    h.__setstate__(st)
    bst = h.__getstate__()
    extra = {"bidx": int(h.get_index()), "bstate": [int(bst[0]), int(bst[1])], "bhash": hash(h) == hash(g)}
    return {**extra, "ev": "Geno", "alleles": list(alleles), "idx": int(g.get_index()), "vec": [int(x) for x in g.as_vector()],
            "ploidy": int(g.get_ploidy()), "back": [int(x) for x in h.as_vector()],
            "hom": bool(g.is_homozygous()), "none": bool(g.is_none()), "space": space}


def _fromidx_event(p, idx):
    from whatshap.core import Genotype
    h = Genotype(_carrier([idx % 3, p % 2]))
    h.__setstate__((idx, p))
    return {"ev": "FromIdx", "p": p, "idx": idx, "alleles": [int(x) for x in h.as_vector()], "reidx": int(h.get_index())}


LETTERS = "ACGT"


def drive(sc):
    from whatshap.core import Genotype
    from whatshap.align import edit_distance
    evs = []
    k = sc["kind"]
    if k == "space":
        for g in sc["genos"]:
            evs.append(_geno_event(g, True))
        for idx in range(len(sc["genos"])):
            evs.append(_fromidx_event(sc["p"], idx))
        evs.append({"ev": "EndSpace", "p": sc["p"], "a": sc["a"]})
    elif k == "georand":
        for g in sc["genos"]:
            e = _geno_event(g, False)
            evs.append(e)
            if g:
                evs.append(_fromidx_event(len(g), e["idx"]))
    elif k == "cmp":
        for a, b in sc["pairs"]:
            ga, gb = Genotype(a), Genotype(b)
            def tri(f):
                try:
                    return 1 if f() else 0
                except TypeError:
                    return -1                    # operator not offered by the class
            evs.append({"ev": "Cmp", "a": a, "b": b, "eq": bool(ga == gb), "ne": bool(ga != gb), "lt": bool(ga < gb),
                        "gt_rev": bool(gb < ga), "hasheq": hash(ga) == hash(gb),
                        "gt": tri(lambda: ga > gb), "le": tri(lambda: ga <= gb), "ge": tri(lambda: ga >= gb),
                        "selfgt": tri(lambda: ga > ga), "selflt": tri(lambda: ga < ga)})
    elif k == "edit":
        # The result of a call must depend on its arguments only, so the ORDER of the calls on one pair is varied:
        # unbanded first / bands ascending first / bands descending first, and every call is made twice in some orders.
        for n, (s, t) in enumerate(sc["pairs"]):
            ss = "".join(LETTERS[c] for c in s)
            tt = "".join(LETTERS[c] for c in t)
            if sc.get("bytes"):
                ss, tt = ss.encode(), tt.encode()
                if n % 2 == 1:
                    # the same abstract strings over an alphabet with bytes >= 0x80 (signed/unsigned char, UTF-8 input)
                    hi = bytes([65, 0xE9, 0xF1, 0x80])
                    ss, tt = bytes(hi[c] for c in s), bytes(hi[c] for c in t)
            order = n % 3
            kind = "bytes" if sc.get("bytes") else "str"
            if order == 0:
                unb = int(edit_distance(ss, tt))
                banded = [int(edit_distance(ss, tt, b)) for b in range(BANDS)]
                evs.append({"ev": "Edit", "s": s, "t": t, "unb": unb, "banded": banded, "kind": kind, "order": "unbanded-first"})
            elif order == 1:
                banded = [int(edit_distance(ss, tt, b)) for b in range(BANDS)]
                unb = int(edit_distance(ss, tt))
                evs.append({"ev": "Edit", "s": s, "t": t, "unb": unb, "banded": banded, "kind": kind, "order": "bands-ascending-first"})
            else:
                down = [int(edit_distance(ss, tt, b)) for b in reversed(range(BANDS))][::-1]
                unb = int(edit_distance(ss, tt))
                up = [int(edit_distance(ss, tt, b)) for b in range(BANDS)]
                evs.append({"ev": "Edit", "s": s, "t": t, "unb": unb, "banded": down, "kind": kind, "order": "bands-descending-first"})
                evs.append({"ev": "Edit", "s": s, "t": t, "unb": int(edit_distance(ss, tt)), "banded": up, "kind": kind, "order": "repeated"})
            if kind == "str" and n % 4 == 0:
                # the two arguments may be given in different types (str / bytes): same content, same distances
                s1, t1 = (ss, tt.encode()) if n % 8 == 0 else (ss.encode(), tt)
                evs.append({"ev": "Edit", "s": s, "t": t, "unb": int(edit_distance(s1, t1)),
                            "banded": [int(edit_distance(s1, t1, b)) for b in range(BANDS)], "kind": "mixed", "order": "mixed-types"})
    elif k == "editpar":
        from concurrent.futures import ThreadPoolExecutor
        strs = [("".join(LETTERS[c] for c in a), "".join(LETTERS[c] for c in b)) for a, b in sc["pairs"]]

        def work(w):
            out = []
            for r in range(sc["reps"]):
                for n in range(len(strs)):
                    m = (n + w) % len(strs)
                    out.append((m, int(edit_distance(strs[m][0], strs[m][1]))))
            return out
        with ThreadPoolExecutor(max_workers=sc["threads"]) as ex:
            res = [x for part in ex.map(work, range(sc["threads"])) for x in part]
        for n, (a, b) in enumerate(sc["pairs"]):
            seen = sorted({d for m, d in res if m == n})
            evs.append({"ev": "EditPar", "s": a, "t": b, "res": seen, "calls": sum(1 for m, _ in res if m == n),
                        "threads": sc["threads"]})
    return evs


def nontrivial(sc, events):
    if sc["kind"] in ("space", "georand"):
        return any(len(set(g)) > 1 for g in sc["genos"])
    if sc["kind"] == "cmp":
        return any(sorted(a) != sorted(b) for a, b in sc["pairs"])
    return any(s and t and s != t for s, t in sc["pairs"])


def signature(sc, events, clause):
    return f"{sc['kind']}"


def selftest_corrupt(events):
    """Binding demonstration: corrupt one recorded field."""
    n = 0
    for e in events:
        if e["ev"] == "Geno" and e["ploidy"] >= 2 and n == 0:
            e["idx"] += 1
            n += 1
        if e["ev"] == "Edit" and e["unb"] >= 2 and n == 1:
            e["banded"][1] = 1
            n += 1
    return events

MANIFEST = {
    "text": "TLC model-checks the specification of the VCF genotype order (rank definition = closed form, gapless, total) and of "
            "Levenshtein distance (row DP = recursive definition) exhaustively for small constants; every genotype up to ploidy 6 x 6 "
            "alleles, all genotype pairs of small spaces and every string pair over {A,C} up to length 5 / {A,C,G} up to length 4 with "
            "every band are enumerated by TLC, executed on the real Genotype / edit_distance built from the working tree, and each "
            "recorded call is judged by TLC against the definitions (trace validation); seeded random cases up to the limits 14/16.",
    "note": "trusted: TLC, the TLA+ definitions in GenotypeIndex.tla / EditDistance.tla, the 40-line driver that records calls; beyond "
            "the exhaustive bounds the evidence is sampling",
    "technique": "TLA+ spec + TLC model checking + TLC trace validation of recorded calls (spec-enumerated inputs)",
}
