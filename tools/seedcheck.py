#!/venv/bin/python
"""Confirm a seeded change (from /tmp/seed/<ID>_out) in a scratch copy of /repo and run the named checks on it.

  tools/seedcheck.py C03 [CHECK ...]     (default check: the property's own)

1. scratch copy of /repo (with its compiled extensions)   2. demo on the unchanged copy must pass
3. apply patch.diff, rebuild extensions if compiled sources changed   4. repository test suite must give 430 passed / 3 failed
5. demo on the changed copy must fail   6. tools/mut.py with the patch: which checks catch it
Writes /verif/seeded/<ID>/{patch.diff, demo.py, meta.json}.  The scratch copy is removed.
"""
import json, os, re, shutil, subprocess, sys
pid = sys.argv[1]
suffix = ""
if ":" in pid:
    pid, suffix = pid.split(":")
checks = sys.argv[2:] or [pid]
src = os.environ.get("SEED_SRC", f"/tmp/seed/{pid}_out")
root = f"/var/tmp/whseed/{pid}{suffix}"
shutil.rmtree(root, ignore_errors=True)
os.makedirs(root)
repo = f"{root}/repo"
subprocess.run(["rsync", "-a", "--exclude=.git", "/repo/", repo + "/"], check=True)
env = dict(os.environ, PYTHONPATH=repo)
env.pop("PYTHONHASHSEED", None)
def run(cmd, **kw):
    return subprocess.run(cmd, cwd=repo, env=env, capture_output=True, text=True, **kw)
demo = os.path.join(src, "demo.py")
is_pytest = "def test_" in open(demo).read() and "__main__" not in open(demo).read()
democmd = ["/venv/bin/python", "-m", "pytest", "-q", "-p", "no:cacheprovider", demo] if is_pytest else ["/venv/bin/python", demo]
r0 = run(democmd, timeout=1800)
print(f"[{pid}] demo on unchanged: rc={r0.returncode}  {(r0.stdout+r0.stderr).strip().splitlines()[-1][:150] if (r0.stdout+r0.stderr).strip() else ''}")
p = subprocess.run(["patch", "-p1", "-d", repo, "-i", os.path.join(src, "patch.diff")], capture_output=True, text=True)
if p.returncode != 0:
    print("patch failed", p.stdout, p.stderr); sys.exit(2)
patch = open(os.path.join(src, "patch.diff")).read()
if re.search(r"^\+\+\+ .*\.(pyx|pxd|cpp|h)$", patch, re.M):
    b = run(["/venv/bin/python", "setup.py", "-q", "build_ext", "--inplace", "-j", "16"])
    print(f"[{pid}] rebuilt extensions rc={b.returncode}")
t = run(["/venv/bin/python", "-m", "pytest", "-q", "-p", "no:cacheprovider", "--timeout=900"], timeout=3600)
tline = [l for l in t.stdout.splitlines() if " passed" in l or " failed" in l][-1:] or [t.stdout[-200:]]
print(f"[{pid}] test suite with change: {tline[0]}")
r1 = run(democmd, timeout=1800)
print(f"[{pid}] demo on changed: rc={r1.returncode}  {(r1.stdout+r1.stderr).strip().splitlines()[-1][:150] if (r1.stdout+r1.stderr).strip() else ''}")
ok = r0.returncode == 0 and r1.returncode != 0 and "430 passed" in tline[0] and "3 failed" in tline[0]
print(f"[{pid}] confirmed={ok}")
shutil.rmtree(root, ignore_errors=True)
res = {}
for c in checks:
    m = subprocess.run(["/verif/tools/mut.py", f"seed_{pid}{suffix}", os.path.join(src, "patch.diff"), c], capture_output=True, text=True)
    line = [l for l in m.stdout.splitlines() if l.startswith("MUT")]
    print("   ", line[0][:300] if line else m.stdout[-300:])
    res[c] = (line[0].split(":")[1].split()[0] if line else "ERROR") + " " + " ".join(re.findall(r"clause=(\S+)", line[0] if line else ""))[:200]
out = f"/verif/seeded/{pid}{suffix}"
os.makedirs(out, exist_ok=True)
shutil.copy(os.path.join(src, "patch.diff"), out)
shutil.copy(demo, out)
meta = json.load(open(os.path.join(src, "meta.json"))) if os.path.exists(os.path.join(src, "meta.json")) else {}
meta.update({"property": pid, "confirmed_by_me": ok,
             "confirmation": {"demo_unchanged_rc": r0.returncode, "tests_with_change": tline[0], "demo_changed_rc": r1.returncode,
                              "how": "tools/seedcheck.py: scratch copy of /repo at HEAD, demo, apply patch (+ rebuild), full pytest, demo"},
             "checks_run": res})
json.dump(meta, open(os.path.join(out, "meta.json"), "w"), indent=1)
