#!/bin/sh
# run every registered check (quick unless TIER given) and summarise
TIER=${1:-quick}
for p in $(grep -v '^#' /verif/wv/ready.txt); do
  /verif/check $p --tier $TIER > /var/tmp/whverif/run_$p.log 2>&1
  echo "$p rc=$? $(grep -a -E '^\[C[0-9]+\] (PASS|FAIL)' /var/tmp/whverif/run_$p.log | tail -1) $(grep -a -c KNOWN-FINDING /var/tmp/whverif/run_$p.log) known"
done
