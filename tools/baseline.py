#!/venv/bin/python
"""Run the repository's pinned baseline (guard OFF) and compare with /root/.vp/BASELINE.json."""
import json, os, subprocess, sys, xml.etree.ElementTree as ET
base = json.load(open("/root/.vp/BASELINE.json"))
junit = "/var/tmp/whverif/baseline.junit.xml"
os.makedirs("/var/tmp/whverif", exist_ok=True)
env = {k: v for k, v in os.environ.items() if not k.startswith("WHATSHAP_VERIF") and k != "PYTHONPATH"}
cmd = base["cmd"].replace("<file>", junit)
if os.path.exists(junit):
    os.remove(junit)
p = subprocess.run(cmd, shell=True, env=env, capture_output=True, text=True)
if not os.path.exists(junit):
    print("baseline: the test run did not finish (crash?) - no junit file written")
    print((p.stdout + p.stderr)[-1500:])
    sys.exit(2)
passed = set()
for tc in ET.parse(junit).getroot().iter("testcase"):
    if not any(c.tag in ("failure", "error", "skipped") for c in tc):
        passed.add(f"{tc.get('classname')}::{tc.get('name')}")
want = set(base["stable_pass"])
missing = sorted(want - passed)
print(f"baseline: {len(want & passed)}/{len(want)} stable tests pass; missing: {missing[:10]}")
print([l for l in p.stdout.strip().splitlines() if " passed" in l or " failed" in l][-1:])
sys.exit(1 if missing else 0)
