#!/venv/bin/python
"""Run the repository's pinned baseline (guard OFF) and compare with /root/.vp/BASELINE.json."""
import json, os, subprocess, sys, xml.etree.ElementTree as ET
base = json.load(open("/root/.vp/BASELINE.json"))
junit = "/var/tmp/whverif/baseline.junit.xml"
os.makedirs("/var/tmp/whverif", exist_ok=True)
env = {k: v for k, v in os.environ.items() if not k.startswith("WHATSHAP_VERIF") and k != "PYTHONPATH"}
cmd = base["cmd"].replace("<file>", junit)
p = subprocess.run(cmd, shell=True, env=env, capture_output=True, text=True)
passed = set()
for tc in ET.parse(junit).getroot().iter("testcase"):
    if not any(c.tag in ("failure", "error", "skipped") for c in tc):
        passed.add(f"{tc.get('classname')}::{tc.get('name')}")
want = set(base["stable_pass"])
missing = sorted(want - passed)
print(f"baseline: {len(want & passed)}/{len(want)} stable tests pass; missing: {missing[:10]}")
print(p.stdout.strip().splitlines()[-1])
sys.exit(1 if missing else 0)
