#!/venv/bin/python
"""Final detection matrix: run every seeded change under /verif/seeded against its property's check (current /verif)
and record the outcome in its meta.json (key final_result).  tools/seedmatrix.py [ID ...]"""
import glob, json, os, re, subprocess, sys
from concurrent.futures import ThreadPoolExecutor
dirs = sorted(glob.glob("/verif/seeded/*/"))
if len(sys.argv) > 1:
    dirs = [d for d in dirs if os.path.basename(d.rstrip("/")) in sys.argv[1:]]
def one(d):
    name = os.path.basename(d.rstrip("/"))
    prop = name[:3]
    m = subprocess.run(["/verif/tools/mut.py", "mx_" + name, d + "patch.diff", prop], capture_output=True, text=True)
    line = next((l for l in m.stdout.splitlines() if l.startswith("MUT")), m.stdout[-200:])
    verdict = line.split(":")[1].split()[0] if line.startswith("MUT") else "ERROR"
    clauses = sorted(set(re.findall(r"clause=(\S+)", line)))
    meta = json.load(open(d + "meta.json"))
    meta["final_result"] = {"check": prop, "tier": "quick", "verdict": verdict, "clauses": clauses}
    json.dump(meta, open(d + "meta.json", "w"), indent=1)
    return f"{name}: {verdict} {clauses[:3]}"
with ThreadPoolExecutor(max_workers=3) as ex:
    for r in ex.map(one, dirs):
        print(r, flush=True)
