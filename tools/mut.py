#!/venv/bin/python
"""Mutation testing helper (development tool, not part of any registered check).

  tools/mut.py NAME PATCH_OR_SED CHECK [CHECK...]

Copies /repo's working tree to /var/tmp/whmut/NAME/repo, applies the change there
(a unified diff file, or 'sed:FILE:EXPR'), seeds the scratch build from the current
/var/tmp/whverif/build (so only the touched extension is rebuilt), runs the named
checks against that copy with evidence/replays redirected, prints one summary line
per check and removes the copy.  /repo and /verif/evidence are never touched.
"""
import os
import shutil
import subprocess
import sys


def main():
    name, change, checks = sys.argv[1], sys.argv[2], sys.argv[3:]
    tier = os.environ.get("MUT_TIER", "quick")
    root = f"/var/tmp/whmut/{name}"
    shutil.rmtree(root, ignore_errors=True)
    os.makedirs(root)
    repo = f"{root}/repo"
    subprocess.run(["rsync", "-a", "--exclude=.git", "--exclude=/tests/data", "--exclude=/doc", "/repo/", repo + "/"], check=True)
    import glob
    done = sorted(glob.glob("/var/tmp/whverif/build-*/.wvcomplete"), key=os.path.getmtime)
    if done:
        os.makedirs(f"{root}/scratch")
        subprocess.run(["cp", "-a", os.path.dirname(done[-1]), f"{root}/scratch/build-seed"], check=True)
    if change.startswith("sed:"):
        _, f, expr = change.split(":", 2)
        before = open(f"{repo}/{f}").read()
        subprocess.run(["sed", "-i", expr, f"{repo}/{f}"], check=True)
        if open(f"{repo}/{f}").read() == before:
            print(f"MUT {name}: sed changed nothing")
            shutil.rmtree(root)
            return 2
    else:
        r = subprocess.run(["patch", "-p1", "-d", repo, "-i", os.path.abspath(change)], capture_output=True, text=True)
        if r.returncode != 0:
            print(f"MUT {name}: patch failed\n{r.stdout}{r.stderr}")
            shutil.rmtree(root)
            return 2
    env = dict(os.environ, WV_REPO=repo, WV_SCRATCH=f"{root}/scratch", WV_OUT=f"{root}/out")
    rc_all = 0
    for c in checks:
        p = subprocess.run(["/verif/check", c, "--tier", tier], env=env, capture_output=True, text=True)
        lines = [l for l in p.stdout.splitlines() if l.startswith("VIOLATION") or "clause=" in l or "MACHINERY" in l or "KNOWN-FINDING" in l]
        verdict = {0: "MISSED", 1: "CAUGHT", 2: "MACHINERY-FAILURE"}.get(p.returncode, f"rc={p.returncode}")
        print(f"MUT {name} {c}: {verdict}  " + " | ".join(l.strip() for l in lines[:4]))
        if p.returncode == 2:
            print(p.stdout[-1500:], p.stderr[-1500:])
        log = f"/var/tmp/whmut/{name}.{c}.log"
        open(log, "w").write(p.stdout + p.stderr)
    shutil.rmtree(root, ignore_errors=True)
    return rc_all


if __name__ == "__main__":
    sys.exit(main())
